---- MODULE Sync ----
(* C20 - sync converges.  One node receives, from a peer, the messages of a sync session in ANY order and
   with duplicates:
     <<"B", h, 0>>  the block of height h of a valid linear segment 1..NB (on top of the genesis block),
     <<"C", h, d>>  a confirm packet: deputy d's signature for block h,
     <<"T", 0, 0>>  one batch of NT valid transactions, none of them in a block (batches that mix transactions of every
                    status - executed, side-fork, pending, refused, boxes - around the blocks that package them: SyncTx.tla).
   and, besides those, up to NBatch times
     DeliverBatch(bs)  ONE block message holding the blocks bs[1..n] (2 <= n <= MaxBatch) in that order - any sequence over
                    the segment, repetitions included: an answer to a block request that overlaps what the node already
                    holds (held and not stable yet / held and stable / waiting in the cache, at the head, in the middle or
                    at the tail of the message), a repeated answer, a descending one.  The blocks of it that are still in
                    flight count as delivered; the others are duplicates.  The loop treats every block of the message
                    exactly as it treats a block that arrives alone.
   Every Deliver(m) is the complete handling of one message by the network layer (network/
   protocol_manager.go: handleBlocksMsg + rcvBlockLoop, handleConfirmMsg, handleTxsMsg + its goroutines),
   TimerDrain is one effective firing of rcvBlockLoop's 500 ms queue timer: every cached block whose parent
   the chain now knows is handed to the engine and leaves the cache.  The block cache is a sorted multimap
   height -> blocks (SyncCacheOps), the confirm cache a bag; when the stable block moves both caches are
   cleared up to its height (stableBlockLoop).

   The engine (C03's subject) is abstracted to what C20 needs: a block is accepted iff its parent is in the
   chain; a block is stable once the distinct deputies that signed it (its miner + confirms) reach 2 of 3.

   Deviation flags (FALSE in the design; TRUE only in the negative controls):
     BugAddMiddle  - Dev_CacheAddMiddle (SyncCacheOps.AddDev),
     BugTxLoopVar  - Dev_TxsLoopVar: the per-transaction goroutines of handleTxsMsg share the loop variable,
                     so all of them may add the LAST transaction of the batch,
     BugConfirmRace - Dev_ConfirmLostDuringInsert: a confirm that arrives while the engine is busy inserting its block
                     (after mergeConfirmsFromCache popped the early confirms, before the chain has the block) is pushed
                     into the confirm cache, where nothing ever looks for it again.
     BugBatchBreak - the seeded class "a block of the message the chain already holds ends the message": the blocks
                     behind a held, not yet stable block are neither inserted nor cached.
   Races = TRUE adds the action RaceInsert (that interleaving); with FALSE every message is handled on its own. *)
EXTENDS SyncCacheOps, TLC
CONSTANTS NB, Confs, NT, MaxDup, Races, BugAddMiddle, BugTxLoopVar, BugConfirmRace, MaxBatch, NBatch, BugBatchBreak

ND == 3
Quorum == 2
Miner(h) == ((h - 1) % ND) + 1
Enough(sg, h) == Cardinality(sg \cup {Miner(h)}) >= Quorum
BMsgs == {<<"B", h, 0>> : h \in 1..NB}
CMsgs == {<<"C", c[1], c[2]>> : c \in Confs}
TMsgs == IF NT > 0 THEN {<<"T", 0, 0>>} ELSE {}
Msgs == BMsgs \cup CMsgs \cup TMsgs
Bid(h) == 10 * h

VARIABLES inflight,  \* multiset of messages still to be delivered
          dups,      \* duplications so far
          has,       \* heights of the segment blocks in the local chain
          sigs,      \* h -> deputies whose confirm is stored with block h
          stable,    \* height of the stable block
          slots,     \* the block cache
          ccache,    \* the confirm cache: confirm message -> number of cached copies
          pool,      \* tx -> number of times it is pending in the pool
          seenB, seenC, seenT,  \* history: what has been delivered at least once
          nbatch     \* multi-block messages so far
vars == <<inflight, dups, has, sigs, stable, slots, ccache, pool, seenB, seenC, seenT, nbatch>>

Cur == IF has = {} THEN 0 ELSE MaxOf(has)
Known(h) == h = 0 \/ h \in has
Insertable(b) == Known(HeightOf(b) - 1)
DrainEnabled == \E b \in Content(slots) : Insertable(b)

Init == /\ inflight = [m \in Msgs |-> 1] /\ dups = 0
        /\ has = {} /\ sigs = [h \in 1..NB |-> {}] /\ stable = 0
        /\ slots = <<>> /\ ccache = [m \in CMsgs |-> 0] /\ pool = [t \in 1..NT |-> 0]
        /\ seenB = {} /\ seenC = {} /\ seenT = FALSE /\ nbatch = 0

\* the caches after the stable block moved (or not) from st to st2
ClearedSlots(s, st, st2) == IF st2 # st THEN ClearUpTo(s, st2) ELSE s
ClearedConfs(cc, st, st2) == IF st2 # st THEN [m \in CMsgs |-> IF m[2] <= st2 THEN 0 ELSE cc[m]] ELSE cc

\* the engine accepts block h (not yet in the chain, parent known); early confirms are merged from the confirm cache cc;
\* `late` = confirms pushed into the cache after the merge (BugConfirmRace only)
InsertWith(h, s, cc, late) ==
    LET early == {m[3] : m \in {x \in CMsgs : x[2] = h /\ cc[x] > 0}}
        st2 == IF Enough(early, h) THEN h ELSE stable
        cc1 == [m \in CMsgs |-> (IF m[2] = h THEN 0 ELSE cc[m]) + (IF m \in late THEN 1 ELSE 0)]
    IN /\ has' = has \cup {h}
       /\ sigs' = [sigs EXCEPT ![h] = early]
       /\ stable' = st2
       /\ slots' = ClearedSlots(s, stable, st2)
       /\ ccache' = ClearedConfs(cc1, stable, st2)
InsertInto(h, s) == InsertWith(h, s, ccache, {})

Take(m) == inflight[m] > 0 /\ inflight' = [inflight EXCEPT ![m] = @ - 1] /\ UNCHANGED <<dups, nbatch>>

DeliverBlock(h) ==
    /\ Take(<<"B", h, 0>>) /\ seenB' = seenB \cup {h} /\ UNCHANGED <<pool, seenC, seenT>>
    /\ IF h <= stable \/ h \in has THEN UNCHANGED <<has, sigs, stable, slots, ccache>>          \* stale
       ELSE IF Known(h - 1) THEN InsertInto(h, slots)                                          \* parent known: insert now
       ELSE /\ slots' = IF BugAddMiddle THEN AddDev(slots, Bid(h)) ELSE AddOK(slots, Bid(h))   \* cache, request the parent
            /\ UNCHANGED <<has, sigs, stable, ccache>>

DeliverConfirm(h, d) ==
    /\ Take(<<"C", h, d>>) /\ seenC' = seenC \cup {<<h, d>>} /\ UNCHANGED <<pool, seenB, seenT, has>>
    /\ IF h \in has
       THEN LET sg == IF Enough(sigs[h], h) THEN sigs[h] ELSE sigs[h] \cup {d}
                st2 == IF h > stable /\ Enough(sg, h) THEN h ELSE stable
            IN /\ sigs' = [sigs EXCEPT ![h] = sg] /\ stable' = st2
               /\ slots' = ClearedSlots(slots, stable, st2) /\ ccache' = ClearedConfs(ccache, stable, st2)
       ELSE /\ ccache' = BagAdd(ccache, <<"C", h, d>>) /\ UNCHANGED <<sigs, stable, slots>>

DeliverTxs ==
    /\ Take(<<"T", 0, 0>>) /\ seenT' = TRUE /\ UNCHANGED <<has, sigs, stable, slots, ccache, seenB, seenC>>
    /\ pool' = [t \in 1..NT |-> IF BugTxLoopVar /\ t # NT THEN pool[t] ELSE IF pool[t] = 0 THEN 1 ELSE pool[t]]

Deliver(m) == /\ m \in Msgs
              /\ \/ m[1] = "B" /\ DeliverBlock(m[2])
                 \/ m[1] = "C" /\ DeliverConfirm(m[2], m[3])
                 \/ m[1] = "T" /\ DeliverTxs

\* Block h is handed to the engine (parent known, nothing cached for it to wait) and, while the engine is busy with it,
\* deputy d's confirm for h arrives.  Whatever the interleaving, the outcome must be that of handling the two messages
\* one after the other - both orders give the same: h is in the chain and carries d's confirm.
RaceInsert(h, d) ==
    /\ Races /\ h \in 1..NB /\ <<"C", h, d>> \in CMsgs
    /\ inflight[<<"B", h, 0>>] > 0 /\ inflight[<<"C", h, d>>] > 0
    /\ inflight' = [inflight EXCEPT ![<<"B", h, 0>>] = @ - 1, ![<<"C", h, d>>] = @ - 1] /\ UNCHANGED <<dups, nbatch>>
    /\ h > stable /\ h \notin has /\ Known(h - 1) /\ Bid(h) \notin Content(slots)
    /\ seenB' = seenB \cup {h} /\ seenC' = seenC \cup {<<h, d>>} /\ UNCHANGED <<pool, seenT>>
    /\ IF BugConfirmRace THEN InsertWith(h, slots, ccache, {<<"C", h, d>>})
                          ELSE InsertWith(h, slots, BagAdd(ccache, <<"C", h, d>>), {})

Duplicate(m) == /\ m \in Msgs /\ inflight[m] > 0 /\ dups < MaxDup
                /\ inflight' = [inflight EXCEPT ![m] = @ + 1] /\ dups' = dups + 1
                /\ UNCHANGED <<has, sigs, stable, slots, ccache, pool, seenB, seenC, seenT, nbatch>>

\* the queue timer fires while some cached block's parent is known: all such blocks leave the cache and go to the engine
TimerDrain ==
    /\ DrainEnabled
    /\ LET P == {b \in Content(slots) : Insertable(b)}
           s1 == IterRemove(slots, P)
           fresh == {HeightOf(b) : b \in P} \ has         \* on a linear segment: at most the block of height Cur+1
       IN IF fresh = {} THEN slots' = s1 /\ UNCHANGED <<has, sigs, stable, ccache>>
          ELSE InsertInto(MinOf(fresh), s1)
    /\ UNCHANGED <<inflight, dups, pool, seenB, seenC, seenT, nbatch>>

(* ---- one message with several blocks: the node state as a record, one block after the other (what DeliverBlock does) *)
Node == [has |-> has, sigs |-> sigs, stable |-> stable, slots |-> slots, cc |-> ccache]
InsertF(s, h) ==
    LET early == {m[3] : m \in {x \in CMsgs : x[2] = h /\ s.cc[x] > 0}}
        st2 == IF Enough(early, h) THEN h ELSE s.stable
        cc1 == [m \in CMsgs |-> IF m[2] = h THEN 0 ELSE s.cc[m]]
    IN [has |-> s.has \cup {h}, sigs |-> [s.sigs EXCEPT ![h] = early], stable |-> st2,
        slots |-> ClearedSlots(s.slots, s.stable, st2), cc |-> ClearedConfs(cc1, s.stable, st2)]
BlockF(s, h) == IF h <= s.stable \/ h \in s.has THEN s                                   \* stale
                ELSE IF h = 1 \/ (h - 1) \in s.has THEN InsertF(s, h)                     \* parent known: insert now
                ELSE [s EXCEPT !.slots = AddOK(@, Bid(h))]                                \* cache (a block that waits already: no change)
RECURSIVE BatchF(_, _, _)
BatchF(s, bs, i) == IF i > Len(bs) THEN s
                    ELSE IF BugBatchBreak /\ bs[i] \in s.has /\ bs[i] > s.stable THEN s   \* gives up on the rest of the message
                    ELSE BatchF(BlockF(s, bs[i]), bs, i + 1)
Batches == UNION {[1..n -> 1..NB] : n \in 2..MaxBatch}
DeliverBatch(bs) ==
    /\ bs \in Batches /\ nbatch < NBatch /\ nbatch' = nbatch + 1
    /\ LET hs == {bs[i] : i \in DOMAIN bs}  r == BatchF(Node, bs, 1) IN
       /\ inflight' = [m \in Msgs |-> IF m[1] = "B" /\ m[2] \in hs /\ inflight[m] > 0 THEN inflight[m] - 1 ELSE inflight[m]]
       /\ seenB' = seenB \cup hs
       /\ has' = r.has /\ sigs' = r.sigs /\ stable' = r.stable /\ slots' = r.slots /\ ccache' = r.cc
    /\ UNCHANGED <<dups, pool, seenC, seenT>>

(* What the constants of a configuration switch off.  TLC's per-action coverage (-coverage) reports such an action with 0 states
   - an `\E` over an empty constant set even loses its name and is reported as a piece of Next.  The vacuity guard of the check
   (checks/c20.py: never_taken) subtracts exactly this set, and it insists that every action listed here was indeed never taken
   and that every action is taken in at least one configuration of the tier: an action that is ON and never taken stays an alarm. *)
ConfiguredOff == (IF MaxBatch < 2 \/ NBatch = 0 THEN {"DeliverBatch"} ELSE {})
                 \cup (IF Races THEN {} ELSE {"RaceInsert"})
                 \cup (IF MaxDup = 0 THEN {"Duplicate"} ELSE {})

Next == (\E m \in Msgs : Deliver(m)) \/ (\E m \in Msgs : Duplicate(m)) \/ TimerDrain
        \/ (\E h \in 1..NB, d \in 1..ND : RaceInsert(h, d))
        \/ (\E bs \in Batches : DeliverBatch(bs))
Spec == Init /\ [][Next]_vars

(* ------------------------------------------------------------------ C20 *)
RefCur == NB
RefStable == LET S == {h \in 1..NB : Enough({c[2] : c \in {x \in Confs : x[1] = h}}, h)} IN IF S = {} THEN 0 ELSE MaxOf(S)
Quiescent == (\A m \in Msgs : inflight[m] = 0) /\ ~DrainEnabled
\* any delivery order ends with the current and stable blocks of the in-order run
Converges == Quiescent => Cur = RefCur /\ stable = RefStable
\* the cache stays a sorted multimap
CacheSorted == WellFormed(slots)
\* an out-of-order block is kept until its parent has arrived (it is in the chain or in the cache, never dropped) ...
CacheKeepsUntilParent == \A h \in seenB : h \in has \/ Bid(h) \in Content(slots)
\* ... and the cache holds nothing but received blocks that still wait
CacheOnlyWaiting == \A b \in Content(slots) : HeightOf(b) \in seenB /\ HeightOf(b) > stable
\* an early confirm is kept until its block arrives, then it is with the block (unless the block had enough already)
ConfirmsKept == \A c \in seenC : IF c[1] \in has THEN c[2] \in sigs[c[1]] \/ Enough(sigs[c[1]], c[1])
                                  ELSE ccache[<<"C", c[1], c[2]>>] > 0
\* every valid transaction of a received batch is pending exactly once
TxOnce == (\A t \in 1..NT : pool[t] <= 1) /\ (seenT => \A t \in 1..NT : pool[t] = 1)
\* the chain only grows, linearly, and the stable block only moves forward
ChainLinear == has = 1..Cur /\ stable \in 0..Cur
Forward == [][has \subseteq has' /\ stable <= stable']_vars
TypeOK == /\ inflight \in [Msgs -> 0..(1 + MaxDup)] /\ dups \in 0..MaxDup /\ has \subseteq 1..NB /\ stable \in 0..NB
          /\ ccache \in [CMsgs -> 0..(1 + MaxDup)] /\ pool \in [1..NT -> 0..(1 + MaxDup)] /\ nbatch \in 0..NBatch
====
