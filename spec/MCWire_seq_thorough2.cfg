SPECIFICATION Spec
CONSTANTS Table <- McTableSeqU
 Carriers <- McCarriersSeqU
 Heavy <- McHeavySeq
 Probe <- McProbe
 MaxIn <- McMaxInSeq
 Dirs <- InOnly
 CrossProbe = TRUE
 MaxConns = 1
 ProbeAfter = 0
 MaxFrameK = 25600
 SlackK = 16384
 C = 256
 HsLimitDevK = 1048576
 SeqOn = TRUE
 SeqBlocks <- McSeqBlocksU
 SeqMsgs <- McSeqMsgsU
 SeqConfirms <- McSeqConfirmsU
 SeqMix <- McSeqMixU
 RxOn = FALSE
 Answering <- NoAnswering
 RxMax = 0
 RxBystander = FALSE
 RxStallOut = FALSE
 Dev <- NoDev
VIEW SeqView
INVARIANTS TypeOK UniqueRows NodeAlive NoDeadlock AllocBounded SeqCacheWaiting SeqConfirmsWaiting SeqChainLinear
PROPERTIES SeqTickDrains
CHECK_DEADLOCK FALSE
