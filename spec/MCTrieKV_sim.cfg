SPECIFICATION Spec
CONSTANTS Keys <- Keys7
 Vals = {"s", "m", "L"}
 Path <- McPath
 Variants <- VarAll
 MaxOld = 3
 ReopenModes = {"same", "fresh", "restart"}
 Ticking = TRUE
 NH = 1
 Vias = {"delete", "empty"}
 Flushes = {FALSE, TRUE}
 Merge = TRUE
INVARIANTS TypeOK
CHECK_DEADLOCK FALSE
