SPECIFICATION Spec
CONSTANTS Keys <- Keys7
 Vals = {"s", "m", "L"}
 Path <- McPath
 Variants <- VarAll
 MaxOld = 3
 ReopenModes = {"same", "fresh", "restart"}
 Ticking = TRUE
 Merge = TRUE
INVARIANTS TypeOK
CHECK_DEADLOCK FALSE
