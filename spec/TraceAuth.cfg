SPECIFICATION TraceSpec
CONSTANTS Weights = {}
 MaxSigners = 0
 ExtraCfgs = {}
 MaxSigs = 0
 TamperFields = {}
 PayCfgs = {}
 PaySenders = {}
 PayFields = {}
 GpFields = {}
 MaxOver = 0
 BoxCfgs = {}
 Kinds = {}
 ReconfCfgs = {}
 NewCfgs = {}
 Slices = {}
 Dev = {}
 AllowedDev = @ALLOWED_DEV@
CONSTRAINT HW
POSTCONDITION Accepted
CHECK_DEADLOCK FALSE
