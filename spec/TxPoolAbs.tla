---- MODULE TxPoolAbs ----
(* C18: the pool as a SET of pending transactions - the property-level meaning of
   chain/txpool/tx_pool.go, independent of slice layout and hand-out order.
   A state is a record s = [pend, maybe, ghost]:
     pend   transactions certainly pending
     maybe  transactions the pool is allowed to have dropped or kept silently: a transaction seen
            expired by some selection, or a standalone copy of a sub-transaction whose box it was
            told to delete
     ghost  ids that may be refused although not pending: siblings of a sub-transaction whose
            deletion dropped their box (behaviour documented in delTx; named deviation
            BoxDroppedWithSubTx - the box itself MUST go, it contains a deleted transaction)
   Subs[b] = sub-transactions of box b ({} for a plain tx), Exp[t] = effective expiration
   (for a box the minimum over itself and its subs). *)
EXTENDS Integers, Sequences, FiniteSets

KeysOf(Subs, t) == {t} \cup Subs[t]
Related(Subs, a, b) == KeysOf(Subs, a) \cap KeysOf(Subs, b) # {}
Expired(Exp, t, now) == Exp[t] < now
EmptyPool == [pend |-> {}, maybe |-> {}, ghost |-> {}]

\* the set of <<state', accepted>> outcomes the property allows for submitting t
AddOutcomes(Subs, s, t) ==
  LET certain == \E p \in s.pend : Related(Subs, p, t)
      mconf == {p \in s.maybe : Related(Subs, p, t)}
      okS == [pend |-> s.pend \cup {t}, maybe |-> s.maybe \ mconf, ghost |-> s.ghost \ KeysOf(Subs, t)]
  IN IF certain THEN {<<s, FALSE>>}
     ELSE IF mconf # {} \/ KeysOf(Subs, t) \cap s.ghost # {} THEN {<<s, FALSE>>, <<okS, TRUE>>}
     ELSE {<<okS, TRUE>>}

\* told to delete t (it was packaged in a block; a box is packaged together with its sub-transactions)
DelOne(Subs, s, t) ==
  LET all == s.pend \cup s.maybe
      gone == {t} \cup {b \in all : t \in Subs[b]}               \* t and the boxes containing it: must go
      hit == {x \in all \ gone : KeysOf(Subs, x) \cap Subs[t] # {}} \* (t a box) standalone copies of its subs and other
                                                                   \* boxes containing one: may stay or go
  IN [pend  |-> (s.pend \ gone) \ hit,
      maybe |-> (s.maybe \ gone) \cup hit,
      ghost |-> (s.ghost \cup UNION {KeysOf(Subs, b) \ {t} : b \in gone \ {t}}
                        \cup UNION {KeysOf(Subs, x) : x \in hit}) \ Subs[t]]

RECURSIVE DelSeq(_, _, _)
DelSeq(Subs, s, ts) == IF ts = <<>> THEN s ELSE DelSeq(Subs, DelOne(Subs, s, Head(ts)), Tail(ts))

Distinct(out) == \A i, j \in 1..Len(out) : i # j => out[i] # out[j]
Range(out) == {out[i] : i \in 1..Len(out)}

\* what a selection for mining (time now, at most size) may return
GetOK(Subs, Exp, s, now, size, out) ==
  /\ Distinct(out)                                               \* each pending tx at most once per selection
  /\ Len(out) <= size
  /\ \A t \in Range(out) : t \in s.pend \cup s.maybe             \* never a deleted / never-accepted one
  /\ \A t \in Range(out) : ~Expired(Exp, t, now)                 \* never an expired one
  /\ \A a, b \in Range(out) : a # b => ~Related(Subs, a, b)      \* box and sub-transaction mutually exclusive
  /\ (Len(out) < size => {t \in s.pend : ~Expired(Exp, t, now)} \subseteq Range(out))   \* nothing accepted is lost

GetNext(Exp, s, now, out) ==
  LET x == {t \in s.pend : Expired(Exp, t, now)} IN
  [pend |-> (s.pend \ x) \cup (s.maybe \cap Range(out)), maybe |-> (s.maybe \ Range(out)) \cup x, ghost |-> s.ghost]
====
