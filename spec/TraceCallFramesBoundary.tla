---- MODULE TraceCallFramesBoundary ----
(* C16, boundary-operand layer: judges what the REAL EVM did with the program of every tuple TLC enumerated
   (harness/adapters/callframes/boundary.go).  One "Bnd" row per tuple:
     op, cls, x = <<prior call left return data, read-only frame, gas class>>, n = <<own code length, foreign code length>>,
     g = gas the wrapper asked for the program, pre = <<state fingerprint, failure records>> before the run,
     r1, r2 = the two runs from the same state:
        <<panic, status, gas left of the transaction, success flag of the program's frame, gas before / after the
          wrapper's call, state fingerprint, failure records, length and fingerprint of the program's output>>
     obs = <<shape, memory size, result word, memory (or the returned bytes), code the copy read>> parsed from run 1.
   Demanded of every row: no panic; both runs identical; gas never grows and the frame burns no more than it was
   given; a failed frame and a read-only frame leave the observable state untouched; the frame ends the way
   CallFramesBoundary!Outcome demands; and whenever it succeeded, memory size, copied bytes, returned bytes and the
   result words the property fixes are exactly the demanded ones. *)
EXTENDS CallFramesBoundary, TraceBase
CONSTANTS AllowedDev
VARIABLES setup
tvars == <<setup, l>>

GapMsg == "the version of change log and account is not match"
CallOverhead == 1000                                            \* what the wrapper itself spends between its two GAS readings (CALL 700 + pushes)

Crash(r) == r[1]   St(r) == r[2]   Left(r) == r[3]   Flag(r) == r[4]   GB(r) == r[5]   GA(r) == r[6]
Fin(r) == r[7]     NF(r) == r[8]   OutN(r) == r[9]

EnvOf(e) == [ms |-> setup.ms, nc |-> setup.nc, rdn |-> IF e.x[1] THEN setup.rdl ELSE 0, nt |-> e.n[1], nx |-> e.n[2], bal |-> setup.bal]

\* byte k (0 = most significant) of a stored word
WordByte(w, k) == LET d == w[((31 - k) \div 2) + 1] IN IF (31 - k) % 2 = 1 THEN d \div 256 ELSE d % 256
\* memory after MSTORE / MSTORE8, byte i (from 0)
StoreMem(op, v, env, i) ==
  LET m == IntOf(v[1]) IN
  IF op = "MSTORE" /\ i >= m /\ i < m + 32 THEN WordByte(v[2], i - m)
  ELSE IF op = "MSTORE8" /\ i = m THEN v[2][1] % 256
  ELSE PreMem(env, i)
\* memory after a call whose callee is known: an account without code returns nothing, R returns its 40 pattern bytes
\* (when it succeeded: res = 1) of which the output range takes as many as it holds
CalleeKnown(a) == a \in {"R", "dirtyR", "U", "fresh", "zero", "max"}
OutRange(op, v) == IF op \in Call7 THEN <<v[6], v[7]>> ELSE <<v[5], v[6]>>
AddrClass(op, cls) == cls[2]
CallMem(op, cls, v, env, res, i) ==
  LET o == OutRange(op, v) IN
  IF o[2] = Zero \/ AddrClass(op, cls) \notin {"R", "dirtyR"} \/ res # FromInt(1) THEN PreMem(env, i)      \* (an empty range may lie anywhere)
  ELSE LET m == IntOf(o[1])  n == IntOf(o[2])  k == IF n < setup.rdl THEN n ELSE setup.rdl IN
       IF i >= m /\ i < m + k THEN Pat(101, i - m) ELSE PreMem(env, i)

Contents(e, env, v, r) ==
  LET shape == e.obs[1]  ms == e.obs[2]  res == e.obs[3]  mem == e.obs[4]  data == e.obs[5] IN
  IF e.op \in {"RETURN", "REVERT"}
  THEN \* the returned bytes are the memory range (zeros beyond the memory the frame had)
       /\ shape = "raw" /\ OutN(r) = IntOf(v[2]) /\ Len(mem) = OutN(r)
       /\ \A i \in 1..Len(mem) : mem[i] = PreMem(env, IntOf(v[1]) + i - 1)
  ELSE IF e.op = "SELFDESTRUCT" THEN shape = "raw" /\ OutN(r) = 0
  ELSE /\ shape = "epi"
       /\ ms = ExpMs(e.op, v, env)
       /\ HasRes(e.op, e.cls, v, env) => Word(res) = ExpRes(e.op, e.cls, v, env)
       /\ e.op \in CopyOps =>
            /\ Len(mem) = ms /\ (NeedsData(e.op, e.cls) => Len(data) = SrcLen(e.op, env))
            /\ \A i \in 0..(ms - 1) : mem[i + 1] = CopyMem(e.op, e.cls, v, env, data, i)
       /\ e.op \in {"MSTORE", "MSTORE8"} => Len(mem) = ms /\ \A i \in 0..(ms - 1) : mem[i + 1] = StoreMem(e.op, v, env, i)
       /\ (e.op \in CallOps /\ CalleeKnown(AddrClass(e.op, e.cls))) =>
            Len(mem) = ms /\ \A i \in 0..(ms - 1) : mem[i + 1] = CallMem(e.op, e.cls, v, env, Word(res), i)

Sandboxed(e) ==
  LET env == EnvOf(e)  r == e.r1  static == e.x[2]  gas == e.x[3]
      v == Vals(e.op, e.cls, env)
      want == Outcome(e.op, e.cls, static, gas, env) IN
  /\ WellFormed(e.op, e.cls, env) /\ e.x[1] \in BOOLEAN /\ static \in BOOLEAN /\ gas \in {"ample", "tiny"}
  /\ e.g >= 0 /\ e.g <= setup.ample /\ (gas = "ample" => e.g = setup.ample)
  /\ e.r1 = e.r2                                                      \* same state, same program => same everything
  /\ St(r) = "p"                                                      \* the wrapper survived whatever the program did
  /\ Left(r) <= setup.top /\ GB(r) <= setup.top /\ GA(r) <= GB(r)     \* gas never grows ...
  /\ GB(r) - GA(r) <= e.g + CallOverhead                              \* ... and the frame burns no more than it was given
  /\ Flag(r) \in {0, 1}
  /\ NF(r) >= e.pre[2]
  /\ (Flag(r) = 0 \/ static) => Fin(r) = e.pre[1]                     \* a failed frame / a read-only frame changed nothing
  /\ want = "ok" => Flag(r) = 1
  /\ want = "fail" => Flag(r) = 0
  /\ Flag(r) = 1 => Contents(e, env, v, r)
  \* a failed frame returns nothing - except the bytes REVERT hands back, which are the memory range it names
  /\ Flag(r) = 0 => IF e.op = "REVERT" /\ MemFine(e.op, v)
                    THEN (OutN(r) = 0 /\ gas = "tiny") \/ Contents(e, env, v, r)
                    ELSE OutN(r) = 0

TReset == /\ Ev("reset")
          /\ setup' = [ms |-> E.ms, nc |-> E.nc, rdl |-> E.rdl, bal |-> E.bal, top |-> E.top, ample |-> E.ample]
\* (IF-THEN-ELSE, not a disjunction: the deviation is only consulted for a run that panicked)
TBnd == /\ Ev("Bnd")
        /\ (IF Crash(E.r1) = ""
            THEN Sandboxed(E)
            ELSE /\ Crash(E.r1) = GapMsg /\ Crash(E.r2) = GapMsg
                 /\ "Dev_NestedFailVersionGapPanics" \in AllowedDev /\ UseDev("Dev_NestedFailVersionGapPanics")) = TRUE
        /\ UNCHANGED setup
TraceNext == TReset \/ TBnd
TraceSpec == l = 1 /\ setup = <<>> /\ [][TraceNext]_tvars
====
