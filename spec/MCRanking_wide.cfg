SPECIFICATION Spec
CONSTANTS NC = 4
 K = 2
 MaxVotes = 2
 MaxLive = 2
 MaxSteps = 0
 RestartAnywhere = TRUE
 Touch = {0, 1, 2, 3, 4}
 VMaps = {100}
 Persist = FALSE
 MaxChg = 4
 Dev = {}
INVARIANTS TypeOK TopIsFullSort FileOK
PROPERTIES RestartKeepsTop
CHECK_DEADLOCK FALSE
