SPECIFICATION Spec
CONSTANTS Keys <- Keys4
 Vals = {"L"}
 Path <- McPath
 NH = 2
 InPlace = {}
INVARIANTS SharingOccurs
CHECK_DEADLOCK FALSE
