SPECIFICATION TraceSpec
CONSTRAINT HW
INVARIANT OnlyValid
POSTCONDITION Accepted
CHECK_DEADLOCK FALSE
