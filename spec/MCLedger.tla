---- MODULE MCLedger ----
(* Model-checking instance of Ledger: the universe the adapter sets up on the real nodes (harness/adapters/ledger):
   a1 (votes for a3), a2, a3 (registered candidate, deposit 300 LEMO), a4 (issuer of all assets, may register), I (the deputies' income address), the deposit pool P, the zero address Z and five contracts.
   Amounts in units of 10^15 mo (1 LEMO = 1000), gas price 1 unit: the balances are those of the real setup
   for seed 1; the abstract gas values are the real intrinsic costs (data bytes rounded). *)
EXTENDS Ledger
\* The issued assets of the setup chain, all issued by a4: T (category 1, token: divisible, replenishable, its one id is the
\* code; a1 and a2 hold 100 each), N (category 2, non-fungible: ids N1 - a1's, issued with amount 100 - and N2 - a2's,
\* amount 1), C (category 3, divisible, replenishable: ids C1 - a1 holds 100 - and C2 - a2 holds 100), G (category 3,
\* divisible, not replenishable, FROZEN by the setup chain after id G1 - a1 holds 100 - was issued); X1..X3 are the ids
\* that issue transactions of the scenario create (category 2 / 3: a new id per issue transaction).
McCodes == {"T", "N", "C", "G"}
McIds   == {"T", "N1", "N2", "C1", "C2", "G1", "X1", "X2", "X3"}
McAssets == [x \in McCodes |-> CASE x = "T" -> [cat |-> 1, div |-> TRUE, repl |-> TRUE, iss |-> "a4"]
                                  [] x = "N" -> [cat |-> 2, div |-> FALSE, repl |-> FALSE, iss |-> "a4"]
                                  [] x = "C" -> [cat |-> 3, div |-> TRUE, repl |-> TRUE, iss |-> "a4"]
                                  [] x = "G" -> [cat |-> 3, div |-> TRUE, repl |-> FALSE, iss |-> "a4"]]
McMeta == [i \in McIds |-> CASE i = "T" -> {"a1", "a2"} [] i \in {"N1", "C1", "G1"} -> {"a1"} [] i \in {"N2", "C2"} -> {"a2"} [] OTHER -> {}]
McAcc == {"a1", "a2", "a3", "a4", "a5", "I", "M1", "M2", "F", "R", "P", "Z", "KS", "KR", "KX", "KD", "KO"}
\* M1 / M2: the miner accounts of the two genesis deputies (registered by the genesis block without a deposit, income
\* address I); F: founder = reward manager; R: the reward precompile.
McCtx == [V |-> 200000, D |-> 100000, mindep |-> 300000, income |-> "I", pool |-> "P", zero |-> "Z", issuer |-> "a4",
          rev |-> {"KR", "KX"}, sink |-> {"KS"}, burn |-> {"KD"}, back |-> {"KO"},
          deps |-> <<{"M1", "M2"}>>, payees |-> << <<[a |-> "I", v |-> 0], [a |-> "I", v |-> 0]>> >>,
          prec |-> 1000, rm |-> "F", rc |-> "R", rpool |-> 600000000,
          assets |-> McAssets, fresh |-> <<"X1", "X2", "X3">>, meta |-> McMeta]
McInit == [bal   |-> [a \in McAcc |-> CASE a = "a1" -> 408796 [] a = "a2" -> 186000 [] a = "a3" -> 256524
                                        [] a = "a4" -> 990540 [] a = "I" -> 227952 [] a = "P" -> 300000
                                        [] a = "M1" -> 1210060 [] a = "M2" -> 764280 [] a = "F" -> 995655848 [] OTHER -> 0],
           votes |-> [a \in McAcc |-> IF a = "a3" THEN 5 ELSE 0],
           vf    |-> [a \in McAcc |-> IF a = "a1" THEN "a3" ELSE NONE],
           reg   |-> [a \in McAcc |-> IF a \in {"a3", "M1", "M2"} THEN "yes" ELSE "no"],
           dep   |-> [a \in McAcc |-> IF a = "a3" THEN 300000 ELSE 0],
           eq    |-> [i \in McIds |-> [a \in McAcc |-> CASE i = "T" /\ a \in {"a1", "a2"} -> 100
                                                          [] i \in {"N1", "C1", "G1"} /\ a = "a1" -> 100
                                                          [] i = "N2" /\ a = "a2" -> 1 [] i = "C2" /\ a = "a2" -> 100 [] OTHER -> 0]],
           idc   |-> [i \in McIds |-> CASE i = "T" -> "T" [] i \in {"N1", "N2"} -> "N" [] i \in {"C1", "C2"} -> "C" [] i = "G1" -> "G" [] OTHER -> NONE],
           code  |-> [a \in McAcc |-> a \in {"KS", "KR", "KX", "KD", "KO"}],
           sup   |-> [x \in McCodes |-> CASE x = "N" -> 2 [] x = "G" -> 100 [] OTHER -> 200],
           frz   |-> [x \in McCodes |-> x = "G"],
           h |-> 3, T |-> 1000000, I |-> 1000, rwd |-> <<0, 0>>, rwt |-> <<0, 0>>,
           idx |-> [a \in McAcc |-> a \in {"a3", "M1", "M2"}], stab |-> FALSE]
\* The term-boundary worlds: setup block 4 lets M1 and a4 vote for a3, gives both genesis deputies a deposit (M1 300,
\* M2 400 LEMO) and registers a4 (300 LEMO); the setup chain continues with empty stable blocks up to the snapshot block
\* (height T), which elects a3 and M2 for term 1 (M1 is not re-elected, a4 not elected); the scenario blocks are the
\* interim blocks T+1 .. T+I, the reward block T+I+1 and the blocks after it.  McInitTerm: scenario blocks stay
\* unconfirmed as in the mid-term world (refunds reach the candidates registered in the setup chain); McInitStab: every
\* scenario block is stabilised when it is committed, as on a live chain (refunds reach later registrations too).
McCtxTerm  == [McCtx EXCEPT !.deps = <<{"M1", "M2"}, {"a3", "M2"}>>,
                            !.payees = << <<[a |-> "I", v |-> 0], [a |-> "I", v |-> 0]>>, <<[a |-> "a3", v |-> 10], [a |-> "I", v |-> 4]>> >>]
McInitT    == [McInit EXCEPT !.bal = [a \in McAcc |-> CASE a = "a1" -> 408796 [] a = "a2" -> 186000 [] a = "a3" -> 256524
                                        [] a = "a4" -> 545860 [] a = "I" -> 626788 [] a = "P" -> 1300000
                                        [] a = "M1" -> 765380 [] a = "M2" -> 254804 [] a = "F" -> 995655848 [] OTHER -> 0],
                             !.votes = [a \in McAcc |-> CASE a = "a3" -> 10 [] a = "M1" -> 3 [] a = "M2" -> 4 [] a = "a4" -> 3 [] OTHER -> 0],
                             !.vf = [a \in McAcc |-> IF a \in {"a1", "a4", "M1"} THEN "a3" ELSE NONE],
                             !.reg = [a \in McAcc |-> IF a \in {"a3", "a4", "M1", "M2"} THEN "yes" ELSE "no"],
                             !.idx = [a \in McAcc |-> a \in {"a3", "a4", "M1", "M2"}],
                             !.dep = [a \in McAcc |-> CASE a \in {"a3", "a4", "M1"} -> 300000 [] a = "M2" -> 400000 [] OTHER -> 0]]
McInitTerm  == [McInitT EXCEPT !.h = 5, !.T = 5, !.I = 1]
McInitTerm2 == [McInitT EXCEPT !.h = 6, !.T = 6, !.I = 2]
McInitStab  == [McInitT EXCEPT !.h = 6, !.T = 6, !.I = 1, !.stab = TRUE]
\* a5 holds a key and owns nothing (the setup chain never touches it): the voter at balance zero.
\* Sub transaction templates of mixed boxes.  SubFail is INVALID when the miner reaches it (a2 does not own 1000 LEMO): the
\* whole box is given up and what the sub transactions before it did must be gone; SubOk is the control (the box is packaged).
Sub(k, f, t, amt, code, id) == [k |-> k, f |-> f, t |-> t, amt |-> amt, c |-> code, id |-> id]
SubFail == Sub("xfer", "a2", "a1", 1000, "", "")
SubOk   == Sub("xfer", "a2", "a1", 100, "", "")
\* vote-affecting sub transactions: a3 tops up across / below a 100-LEMO deposit boundary, a3 unregisters, a4 registers,
\* a2 (weight 0) / a1 (weight 2, votes for a3) vote
McVoteSubs == {Sub("topup", "a3", "", 100, "", ""), Sub("topup", "a3", "", 50, "", ""), Sub("unreg", "a3", "", 0, "", ""),
               Sub("reg", "a4", "", 300, "", ""), Sub("vote", "a2", "a3", 0, "", ""), Sub("vote", "a1", "a4", 0, "", "")}
McBoxVote == {<<x, e>> : x \in McVoteSubs, e \in {SubFail, SubOk}}
             \cup {<<Sub("reg", "a4", "", 300, "", ""), Sub("vote", "a1", "a4", 0, "", ""), e>> : e \in {SubFail, SubOk}}
McBoxVoteQ == {q \in McBoxVote : q[Len(q)] = SubFail \/ q[1].k \in {"topup", "vote"}}
\* asset sub transactions towards FIRST-TIME holders (a3 / KS never held anything) and, as the control, an old holder (a2):
\* transfer of a token, of a whole non-fungible id, of a common asset; the issuer replenishes towards a first-time holder
McAssetSubs == {Sub("axfer", "a1", "a3", 40, "", "T"), Sub("axfer", "a1", "a3", 1, "", "N1"), Sub("axfer", "a1", "KS", 40, "", "C1"),
                Sub("axfer", "a1", "a2", 40, "", "T"), Sub("repl", "a4", "a3", 50, "T", "T"), Sub("repl", "a4", "KS", 50, "C", "C1")}
McBoxAsset == {<<x, e>> : x \in McAssetSubs, e \in {SubFail, SubOk}}
              \cup {<<Sub("axfer", "a1", "a3", 40, "", "T"), Sub("axfer", "a1", "a3", 40, "", "C1"), SubFail>>}
\* ... and an ISSUE towards a first-time holder (it also writes the id's metadata into the receiver's account)
McBoxAssetW == McBoxAsset \cup {<<Sub("issue", "a4", "a3", 50, "T", "T"), e>> : e \in {SubFail, SubOk}}
McBoxAssetQ == {q \in McBoxAsset : q[Len(q)] = SubFail \/ q[1].t = "a3"}
McGas == [xfer |-> 21000, vote |-> 35000, reg |-> 112000, topup |-> 112000, unreg |-> 112000, issue |-> 63000,
          repl |-> 70000, axfer |-> 39000, freeze |-> 43000, unfreeze |-> 43000, box |-> 40000, setrew |-> 24000]
\* amount classes of the asset transactions (cfg files cannot hold negative numbers): negative, zero, one, all of
\* the holder's equity, one more than it owns, 2^256 (the adapter writes 2000000000 as 2^256)
McAAmtQ == {-60, 0, 1, 100, 101, 2000000000}
McAAmtT == {-60, 0, 100, 101}
McAAmtS == {-60, -1, 0, 1, 40, 100, 101, 2000000000}
McAAmtC == {0, 1, 100, 101}
McIAmt  == {-5, 0, 50}
McIAmtC == {0, 50}
McIAmtS == {-5, 0, 1, 50}
====
