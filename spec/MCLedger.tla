---- MODULE MCLedger ----
(* Model-checking instance of Ledger: the universe the adapter sets up on the real nodes (harness/adapters/ledger):
   a1 (votes for a3, holds 100 T), a2 (holds 100 T), a3 (registered candidate, deposit 300 LEMO), a4 (asset issuer,
   may register), I (the deputies' income address), the deposit pool P, the zero address Z and five contracts.
   Amounts in units of 10^15 mo (1 LEMO = 1000), gas price 1 unit: the balances are those of the real setup
   for seed 1; the abstract gas values are the real intrinsic costs (data bytes rounded). *)
EXTENDS Ledger
McAcc == {"a1", "a2", "a3", "a4", "I", "P", "Z", "KS", "KR", "KX", "KD", "KO"}
McCtx == [V |-> 200000, D |-> 100000, mindep |-> 300000, income |-> "I", pool |-> "P", zero |-> "Z", issuer |-> "a4",
          rev |-> {"KR", "KX"}, sink |-> {"KS"}, burn |-> {"KD"}, back |-> {"KO"}]
McInit == [bal   |-> [a \in McAcc |-> CASE a = "a1" -> 409000 [] a = "a2" -> 186000 [] a = "a3" -> 256728
                                        [] a = "a4" -> 991480 [] a = "I" -> 219544 [] a = "P" -> 300000 [] OTHER -> 0],
           votes |-> [a \in McAcc |-> IF a = "a3" THEN 5 ELSE 0],
           vf    |-> [a \in McAcc |-> IF a = "a1" THEN "a3" ELSE NONE],
           reg   |-> [a \in McAcc |-> IF a = "a3" THEN "yes" ELSE "no"],
           dep   |-> [a \in McAcc |-> IF a = "a3" THEN 300000 ELSE 0],
           eq    |-> [a \in McAcc |-> IF a \in {"a1", "a2"} THEN 100 ELSE 0],
           code  |-> [a \in McAcc |-> a \in {"KS", "KR", "KX", "KD", "KO"}],
           sup   |-> 200, frz |-> FALSE]
McGas == [xfer |-> 21000, vote |-> 35000, reg |-> 112000, topup |-> 112000, unreg |-> 112000, issue |-> 63000,
          repl |-> 70000, axfer |-> 39000, freeze |-> 43000, unfreeze |-> 43000, box |-> 40000]
\* amount classes of the asset transactions (cfg files cannot hold negative numbers): negative, zero, one, all of
\* the holder's equity, one more than it owns, 2^256 (the adapter writes 2000000000 as 2^256)
McAAmtQ == {-60, 0, 1, 100, 101, 2000000000}
McAAmtT == {-60, 0, 100, 101}
McAAmtS == {-60, -1, 0, 1, 40, 100, 101, 2000000000}
McIAmt  == {-5, 0, 50}
McIAmtS == {-5, 0, 1, 50}
====
