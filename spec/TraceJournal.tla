---- MODULE TraceJournal ----
(* C07 trace specification.  A trace line is one operation performed on the REAL account.Manager by
   harness/adapters/journal together with the full observable projection `obs` (every AccountAccessor getter of
   every account of the universe) read after it, and the journal length `nlogs`.
   What the property demands is checked on the logged values:
     - a setter changes exactly its attribute (of exactly its account) and appends one journal entry;
     - Snapshot changes nothing; the logged projection is the copy the revision has to restore;
     - Revert(i): the projection equals the copy saved by the Snapshot of revision i, the journal is cut back to
       its length at that Snapshot, and the call does not panic;
     - Seal: the block is finished (MergeChangeLogs, Finalise), replayed (RebuildAll on a manager that only has the
       parent state), saved and re-read through a fresh manager on the new block, and built once more by a manager
       that executes ONLY the surviving setter calls (no snapshot, no revert).  Demanded: Finalise changes no getter
       but the roots; the block - every getter, all four roots, the published logs with versions and hashes - is
       the block of that other run (reverted work leaves no trace, also not when the tries are flushed); the replay
       gives the executed projection, roots included; the re-read state is the executed one.
   Deviations of the code listed in known_findings.txt (AllowedDev) are accepted only where the correct outcome
   does not match and only with exactly the outcome the deviation predicts (JournalOps.UndoFrom / Panics with
   Dv = AllowedDev run on the spec's own journal); they are reported through UseDev. *)
EXTENDS JournalOps, TraceBase
CONSTANT AllowedDev
VARIABLES st,       \* the projection after the last accepted line
          base,     \* the projection at reset = the committed parent state
          journal,  \* Seq([a, k, old, new, n]) built from the setters seen, old values taken from st
          ver,      \* [<<account, log type>> -> number of entries ever journalled]
          revs,     \* Seq([id, idx, copy])  live revisions with the projection saved at Snapshot
          zero,     \* the zero hash as the code prints it
          bent,     \* deviations that were accepted at a Revert of this behaviour (st is not the ideal state then)
          ghost     \* JournalOps ghost pairs: <<account, root>> an empty value was written into that trie cache (by a
                    \* setter or by an undo), <<account, "code">> the code was set (and stays dirty)
tvars == <<st, base, journal, ver, revs, zero, bent, ghost, l>>

AllTypes == {"bal", "sto", "code", "sui", "ev", "ax", "asup", "afr", "aid", "eq", "cand", "pst", "votes", "vf", "sig"}
\* the code may have been repaired for some of the listed deviations: any subset of them may be in effect
UndoDevs == {"Dev_UndoCodeDropsPreviousCode", "Dev_UndoSuicideShallow", "Dev_UndoEventNoop"}
RedoDevs == {"Dev_MergeAcrossSuicide", "Dev_WorthlessSuicideDropped"}
Smallest(Ds) == CHOOSE D \in Ds : \A D2 \in Ds : Cardinality(D) <= Cardinality(D2)
EvPanic(n) == l <= Len(Trace) /\ Trace[l].ev = n /\ "panic" \in DOMAIN Trace[l] /\ l' = l + 1

TReset == /\ Ev("reset")
          /\ st' = E.obs /\ base' = E.obs /\ zero' = E.zero
          /\ E.nlogs = 0
          /\ journal' = <<>> /\ revs' = <<>> /\ bent' = {} /\ ghost' = {}
          /\ ver' = [p \in (DOMAIN E.obs) \X AllTypes |-> 0]

TSet == /\ Ev("Set")
        /\ LET a == E.a[1]  k == E.a[2]  v == E.a[3]  t == LogType(k) IN
           /\ E.err = ""
           /\ E.obs = [st EXCEPT ![a] = Effect(@, k, v, zero)]
           /\ E.nlogs = Len(journal) + 1
           /\ journal' = Append(journal, [a |-> a, k |-> k, old |-> OldOf(st[a], k), new |-> v, n |-> ver[<<a, t>>] + 1])
           /\ ver' = [ver EXCEPT ![<<a, t>>] = @ + 1]
        /\ st' = E.obs
        /\ ghost' = GhostsAfterSet(ghost, E.a[1], E.a[2], E.a[3])
        /\ UNCHANGED <<base, revs, zero, bent>>

TSnapshot == /\ Ev("Snapshot")
             /\ E.obs = st /\ E.nlogs = Len(journal)
             /\ \A i \in 1..Len(revs) : revs[i].id < E.id
             /\ revs' = Append(revs, [id |-> E.id, idx |-> Len(journal), copy |-> st])
             /\ UNCHANGED <<st, base, journal, ver, zero, bent, ghost>>

TRevert == /\ Ev("Revert")
           /\ LET i == E.a[1] IN
              /\ i \in 1..Len(revs)
              /\ E.id = revs[i].id
              /\ E.nlogs = revs[i].idx
              /\ \/ E.obs = revs[i].copy /\ bent' = bent                        \* what the property demands
                 \/ /\ E.obs # revs[i].copy                                   \* listed deviations, exactly as predicted
                    /\ LET Ds == {D \in SUBSET (AllowedDev \cap UndoDevs) : E.obs = UndoFrom(st, journal, revs[i].idx, base, zero, D)} IN
                       /\ Ds # {}
                       /\ \A d \in Smallest(Ds) : UseDev(d)
                       /\ bent' = bent \cup Smallest(Ds)
              /\ ghost' = ghost \cup GhostsOf(journal, revs[i].idx)
              /\ journal' = SubSeq(journal, 1, revs[i].idx)
              /\ revs' = SubSeq(revs, 1, i - 1)
           /\ st' = E.obs
           /\ UNCHANGED <<base, ver, zero>>

\* RevertToSnapshot panicked: never allowed by the property; accepted only as a listed deviation whose trigger is
\* present in the entries being undone.  The engine ends the behaviour after a panic.
TRevertPanic == /\ EvPanic("Revert")
                /\ LET i == E.a[1] IN
                   /\ i \in 1..Len(revs)
                   /\ Panics(journal, revs[i].idx, AllowedDev)
                   /\ "Dev_RevertVersionGapPanics" \in AllowedDev /\ HasGap(journal, revs[i].idx) => UseDev("Dev_RevertVersionGapPanics")
                   /\ "Dev_UndoFirstEquityPanics" \in AllowedDev /\ HasNilEquity(journal, revs[i].idx) => UseDev("Dev_UndoFirstEquityPanics")
                /\ UNCHANGED <<st, base, journal, ver, revs, zero, bent, ghost>>

\* the block is sealed (MergeChangeLogs, Finalise), replayed on the parent state (RebuildAll, Finalise), saved and
\* re-read, and built a second time from the surviving setter calls only.
Drop(o, F) == DropF(o, F)
NoRoots(o) == Drop(o, Roots)
\* deviations after which st is not the state the surviving writes produce (the Seal comparisons need that state)
StateDevs == {"Dev_UndoCodeDropsPreviousCode", "Dev_UndoSuicideShallow"}
\* ... Dev_UndoEventNoop only leaves reverted events in GetEvents()
EvMask == IF "Dev_UndoEventNoop" \in bent THEN {"ev"} ELSE {}
\* the replay differs in content: accepted only as a listed merge / publish deviation, exactly as predicted
RedoDeviates(D0) ==
  LET Ds == {D \in (SUBSET (AllowedDev \cap RedoDevs)) \ D0 : NoRoots(E.redo) = NoRoots(Redone(base, journal, zero, D))} IN
  /\ Ds # {}
  /\ \A d \in Smallest(Ds) : UseDev(d)
\* the projection x of another manager (gx = its ghost pairs) and the projection y of the executing one are the same up to
\* the listed root deviations (JournalOps.RootDevsX)
Same(x, gx, y) == LET ds == RootDevsX(x, y, ghost, gx, zero, E.emptyroot) IN ds \subseteq AllowedDev /\ \A d \in ds : UseDev(d)
\* the caches of the reverts-free run (it executed the surviving journal) and of the replay (it executed the published logs)
CleanGhosts == GhostsOfRun(journal, {})
RedoGhosts == UNION {GhostsOfRun(Published(journal, a, zero, {}), {}) : a \in DOMAIN base}
SealStrict ==
  LET touched == {E.pub[i].a : i \in 1..Len(E.pub)}
  IN
  \* the other run executed exactly the surviving entries of the spec's journal
  /\ E.cerr = ""
  /\ E.cleanops = [i \in 1..Len(journal) |-> <<journal[i].a, journal[i].k, journal[i].new>>]
  \* reverted work leaves no trace: same getters and roots ...
  /\ Same(Drop(E.clean, EvMask), CleanGhosts, Drop(E.obs, EvMask))
  \* ... and the same published logs (type, version, hash; in order), but for the root logs of roots that differ
  /\ SansDifferingRootLogs(E.pub, E.obs, E.clean) = SansDifferingRootLogs(E.cleanpub, E.obs, E.clean)
  \* the block can be saved, and what is saved is what was executed (Save writes the accounts with published logs)
  /\ \/ /\ E.serr = ""
        /\ \A a \in touched : [f \in DOMAIN E.saved[a] \ Volatile |-> E.saved[a][f]] = [f \in DOMAIN E.obs[a] \ Volatile |-> E.obs[a][f]]
     \/ /\ E.serr = "invalid argument"                                        \* listed deviation, exactly as predicted
        /\ "Dev_SaveFailsOnDirtyEmptyCode" \in AllowedDev
        /\ \E a \in touched : <<a, "code">> \in ghost /\ E.obs[a].code = ""
        /\ UseDev("Dev_SaveFailsOnDirtyEmptyCode")
  \* the replay of the published logs gives the executed state, roots included
  /\ \/ Same(Drop(E.redo, EvMask), RedoGhosts, Drop(E.obs, EvMask))
     \/ /\ Drop(E.redo, Roots \cup EvMask) # Drop(E.obs, Roots \cup EvMask)
        /\ RedoDeviates({{}})
\* st was bent by a listed undo deviation: the other run and the re-read cannot be compared with it; the replay still has
\* to be what the spec's journal predicts
SealBent == \/ E.redo = E.obs
            \/ E.redo # E.obs /\ RedoDeviates({})
TSeal == /\ Ev("Seal")
         /\ E.err = "" /\ E.rerr = ""
         /\ NoRoots(E.obs) = NoRoots(st)
         /\ IF bent \cap StateDevs = {} THEN SealStrict ELSE SealBent
         /\ st' = E.obs
         /\ UNCHANGED <<base, journal, ver, revs, zero, bent, ghost>>

TraceNext == TReset \/ TSet \/ TSnapshot \/ TRevert \/ TRevertPanic \/ TSeal
TraceSpec == l = 1 /\ st = <<>> /\ base = <<>> /\ journal = <<>> /\ ver = <<>> /\ revs = <<>> /\ zero = "" /\ bent = {} /\ ghost = {}
             /\ [][TraceNext]_tvars
\* state invariants evaluated on every prefix of every real trace
TraceRevsOK == \A i \in 1..Len(revs) : revs[i].idx <= Len(journal) /\ \A j \in 1..Len(revs) : i < j => revs[i].idx <= revs[j].idx
====
