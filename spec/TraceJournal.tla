---- MODULE TraceJournal ----
(* C07 trace specification.  A trace line is one operation performed on the REAL account.Manager by
   harness/adapters/journal together with the full observable projection `obs` (every AccountAccessor getter of
   every account of the universe) read after it, and the journal length `nlogs`.
   What the property demands is checked on the logged values:
     - a setter changes exactly its attribute (of exactly its account) and appends one journal entry;
     - Snapshot changes nothing; the logged projection is the copy the revision has to restore;
     - Revert(i): the projection equals the copy saved by the Snapshot of revision i, the journal is cut back to
       its length at that Snapshot, and the call does not panic;
     - Seal/Redo: replaying the published logs on the parent state gives the projection of the executed block.
   Deviations of the code listed in known_findings.txt (AllowedDev) are accepted only where the correct outcome
   does not match and only with exactly the outcome the deviation predicts (JournalOps.UndoFrom / Panics with
   Dv = AllowedDev run on the spec's own journal); they are reported through UseDev. *)
EXTENDS JournalOps, TraceBase
CONSTANT AllowedDev
VARIABLES st,       \* the projection after the last accepted line
          base,     \* the projection at reset = the committed parent state
          journal,  \* Seq([a, k, old, new, n]) built from the setters seen, old values taken from st
          ver,      \* [<<account, log type>> -> number of entries ever journalled]
          revs,     \* Seq([id, idx, copy])  live revisions with the projection saved at Snapshot
          zero      \* the zero hash as the code prints it
tvars == <<st, base, journal, ver, revs, zero, l>>

AllTypes == {"bal", "sto", "code", "sui", "ev", "ax", "asup", "afr", "aid", "eq", "cand", "pst", "votes", "vf", "sig"}
\* the code may have been repaired for some of the listed deviations: any subset of them may be in effect
UndoDevs == {"Dev_UndoCodeDropsPreviousCode", "Dev_UndoSuicideShallow", "Dev_UndoEventNoop"}
RedoDevs == {"Dev_MergeAcrossSuicide", "Dev_WorthlessSuicideDropped"}
Smallest(Ds) == CHOOSE D \in Ds : \A D2 \in Ds : Cardinality(D) <= Cardinality(D2)
EvPanic(n) == l <= Len(Trace) /\ Trace[l].ev = n /\ "panic" \in DOMAIN Trace[l] /\ l' = l + 1

TReset == /\ Ev("reset")
          /\ st' = E.obs /\ base' = E.obs /\ zero' = E.zero
          /\ E.nlogs = 0
          /\ journal' = <<>> /\ revs' = <<>>
          /\ ver' = [p \in (DOMAIN E.obs) \X AllTypes |-> 0]

TSet == /\ Ev("Set")
        /\ LET a == E.a[1]  k == E.a[2]  v == E.a[3]  t == LogType(k) IN
           /\ E.err = ""
           /\ E.obs = [st EXCEPT ![a] = Effect(@, k, v, zero)]
           /\ E.nlogs = Len(journal) + 1
           /\ journal' = Append(journal, [a |-> a, k |-> k, old |-> OldOf(st[a], k), new |-> v, n |-> ver[<<a, t>>] + 1])
           /\ ver' = [ver EXCEPT ![<<a, t>>] = @ + 1]
        /\ st' = E.obs
        /\ UNCHANGED <<base, revs, zero>>

TSnapshot == /\ Ev("Snapshot")
             /\ E.obs = st /\ E.nlogs = Len(journal)
             /\ \A i \in 1..Len(revs) : revs[i].id < E.id
             /\ revs' = Append(revs, [id |-> E.id, idx |-> Len(journal), copy |-> st])
             /\ UNCHANGED <<st, base, journal, ver, zero>>

TRevert == /\ Ev("Revert")
           /\ LET i == E.a[1] IN
              /\ i \in 1..Len(revs)
              /\ E.id = revs[i].id
              /\ E.nlogs = revs[i].idx
              /\ \/ E.obs = revs[i].copy                                        \* what the property demands
                 \/ /\ E.obs # revs[i].copy                                   \* listed deviations, exactly as predicted
                    /\ LET Ds == {D \in SUBSET (AllowedDev \cap UndoDevs) : E.obs = UndoFrom(st, journal, revs[i].idx, base, zero, D)} IN
                       /\ Ds # {}
                       /\ \A d \in Smallest(Ds) : UseDev(d)
              /\ journal' = SubSeq(journal, 1, revs[i].idx)
              /\ revs' = SubSeq(revs, 1, i - 1)
           /\ st' = E.obs
           /\ UNCHANGED <<base, ver, zero>>

\* RevertToSnapshot panicked: never allowed by the property; accepted only as a listed deviation whose trigger is
\* present in the entries being undone.  The engine ends the behaviour after a panic.
TRevertPanic == /\ EvPanic("Revert")
                /\ LET i == E.a[1] IN
                   /\ i \in 1..Len(revs)
                   /\ Panics(journal, revs[i].idx, AllowedDev)
                   /\ "Dev_RevertVersionGapPanics" \in AllowedDev /\ HasGap(journal, revs[i].idx) => UseDev("Dev_RevertVersionGapPanics")
                   /\ "Dev_UndoFirstEquityPanics" \in AllowedDev /\ HasNilEquity(journal, revs[i].idx) => UseDev("Dev_UndoFirstEquityPanics")
                /\ UNCHANGED <<st, base, journal, ver, revs, zero>>

\* the block is sealed (MergeChangeLogs, Finalise) and its published logs are replayed on the parent state
\* (RebuildAll, Finalise).  Finalise changes no getter except the four roots; the replayed projection - roots included -
\* must be the projection of the executed block.
Roots == {"rs", "rac", "rai", "req"}
NoRoots(o) == [a \in DOMAIN o |-> [f \in DOMAIN o[a] \ Roots |-> o[a][f]]]
TSeal == /\ Ev("Seal")
         /\ E.err = "" /\ E.rerr = ""
         /\ NoRoots(E.obs) = NoRoots(st)
         /\ \/ E.redo = E.obs                                                        \* what the property demands
            \/ /\ E.redo # E.obs                                                     \* listed deviations, exactly as predicted
               /\ LET Ds == {D \in SUBSET (AllowedDev \cap RedoDevs) : NoRoots(E.redo) = NoRoots(Redone(base, journal, zero, D))} IN
                  /\ Ds # {}
                  /\ \A d \in Smallest(Ds) : UseDev(d)
         /\ st' = E.obs
         /\ UNCHANGED <<base, journal, ver, revs, zero>>

TraceNext == TReset \/ TSet \/ TSnapshot \/ TRevert \/ TRevertPanic \/ TSeal
TraceSpec == l = 1 /\ st = <<>> /\ base = <<>> /\ journal = <<>> /\ ver = <<>> /\ revs = <<>> /\ zero = "" /\ [][TraceNext]_tvars
\* state invariants evaluated on every prefix of every real trace
TraceRevsOK == \A i \in 1..Len(revs) : revs[i].idx <= Len(journal) /\ \A j \in 1..Len(revs) : i < j => revs[i].idx <= revs[j].idx
====
