---- MODULE MCTrieKVHeap ----
(* Key universe as in MCTrieKV: byte keys 1234, 1235, 1245, 12 (a strict prefix of the first three), 1334 as nibble
   paths with the terminator 16. *)
EXTENDS TrieKVHeap
McPath == [k \in {"k1", "k2", "k3", "k4", "k5"} |->
             CASE k = "k1" -> <<1, 2, 3, 4, 16>>
               [] k = "k2" -> <<1, 2, 3, 5, 16>>
               [] k = "k3" -> <<1, 2, 4, 5, 16>>
               [] k = "k4" -> <<1, 2, 16>>
               [] k = "k5" -> <<1, 3, 3, 4, 16>>]
Keys3 == {"k1", "k2", "k3"}
Keys4 == {"k1", "k2", "k3", "k4"}
Keys5 == {"k1", "k2", "k3", "k4", "k5"}
====
