---- MODULE FileQueue ----
(* The read path of the store's write pipeline (store/file_queue.go, store/sync_file_db.go), anchored in C19 and C08:
   BeansDB.Put appends to the WAL and DELIVERS the record: the in-memory index remembers the newest value and how many
   writes of that key are still outstanding (refCnt), and the record is queued for the background writer (SyncFileDB.start),
   which writes it to its bitcask file and sends a done notice; a third goroutine (FileQueue.start) handles the notice with
   delIndex.  BeansDB.Get reads the index first and the bitcask files otherwise.
   Whatever the three goroutines' progress, a read must return the LAST value put (reads are linearizable with puts):
   otherwise a read-modify-write such as SetConfirms loses an update.
   EarlyDrop = TRUE models an off-by-one in delIndex (entry dropped while one write is still outstanding). *)
EXTENDS Naturals, Sequences, TLC
CONSTANTS Key, MaxVal, MaxPuts, EarlyDrop
NONE == 0
VARIABLES idx,      \* idx[k] = [val, ref]   (ref = 0: no entry)
          wq,       \* records delivered to the writer, not yet written
          doneq,    \* done notices not yet handled
          disk,     \* disk[k]: value in the bitcask files
          last,     \* last[k]: the last value put (the oracle)
          puts
vars == <<idx, wq, doneq, disk, last, puts>>
Init == /\ idx = [k \in Key |-> [val |-> NONE, ref |-> 0]]
        /\ wq = <<>> /\ doneq = <<>>
        /\ disk = [k \in Key |-> NONE] /\ last = [k \in Key |-> NONE] /\ puts = 0
Put(k, v) == /\ puts < MaxPuts /\ puts' = puts + 1
             /\ idx' = [idx EXCEPT ![k] = [val |-> v, ref |-> @.ref + 1]]          \* setIndex
             /\ wq' = Append(wq, <<k, v>>) /\ last' = [last EXCEPT ![k] = v]
             /\ UNCHANGED <<doneq, disk>>
WriterStep == /\ wq # <<>>
              /\ disk' = [disk EXCEPT ![Head(wq)[1]] = Head(wq)[2]]                 \* bitcask.Put
              /\ doneq' = Append(doneq, Head(wq)[1]) /\ wq' = Tail(wq)              \* Done <- op
              /\ UNCHANGED <<idx, last, puts>>
DoneHandle == /\ doneq # <<>>
              /\ LET k == Head(doneq)  e == idx[k] IN
                 idx' = [idx EXCEPT ![k] = IF EarlyDrop
                                           THEN (IF e.ref - 1 <= 1 THEN [val |-> NONE, ref |-> 0] ELSE [e EXCEPT !.ref = @ - 1])
                                           ELSE (IF e.ref <= 1 THEN [val |-> NONE, ref |-> 0] ELSE [e EXCEPT !.ref = @ - 1])]   \* delIndex
              /\ doneq' = Tail(doneq)
              /\ UNCHANGED <<wq, disk, last, puts>>
Read(k) == IF idx[k].ref > 0 THEN idx[k].val ELSE disk[k]                          \* FileQueue.Get
Get(k) == UNCHANGED vars                                                            \* a read changes nothing
Next == \/ \E k \in Key, v \in 1..MaxVal : Put(k, v)
        \/ WriterStep \/ DoneHandle
        \/ \E k \in Key : Get(k)
Spec == Init /\ [][Next]_vars
\* ---- the property ----
ReadLatest == \A k \in Key : Read(k) = last[k]
IndexCounts == \A k \in Key : idx[k].ref <= Len(wq) + Len(doneq)
====
