SPECIFICATION Spec
CONSTANTS NB = 2
 MaxCrash = 1
 RepairTornTail = TRUE
 RepairAtomicContext = TRUE
 RepairScanPromotes = TRUE
 MaxEdge = 1
 ScanStride = "align"
 CaskAdvance = "align"
INVARIANTS TypeOK Opens StableNotOlder StableClosed WalClauses AccountsExact ContextFresh
CHECK_DEADLOCK FALSE
