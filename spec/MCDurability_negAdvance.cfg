SPECIFICATION Spec
CONSTANTS NB = 1
 MaxCrash = 2
 RepairTornTail = TRUE
 RepairAtomicContext = TRUE
 RepairScanPromotes = TRUE
 MaxEdge = 1
 ScanStride = "align"
 CaskAdvance = "floor"
INVARIANTS StableClosed
CHECK_DEADLOCK FALSE
