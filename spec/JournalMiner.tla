---- MODULE JournalMiner ----
(* C07 design specification, miner side: "a transaction the miner discards leaves no trace at all".
   One block: the miner is offered a list of candidates (JournalMinerOps) under a block gas limit G.  The writes that
   remain in the account state / change journal afterwards (tokens) must be exactly the writes of a miner that was
   offered only the packaged transactions - whatever was tried, bought gas, ran half-way and was dropped in between.
   Every transition of this specification (gas limit x candidate list) is executed by the real TxProcessor.ApplyTxs on
   a real node; TraceJournalMiner.tla validates what the real code left behind. *)
EXTENDS JournalMinerOps
CONSTANTS GasLimits,   \* block gas limits to try
          Gas,         \* [transaction -> its gas limit = gas used]
          MinGas,      \* params.OrdinaryTxGas
          MaxCands,    \* length of the candidate list
          Offered,     \* the candidate classes offered
          Dv
VARIABLES G, cands, res, mined
vars == <<G, cands, res, mined>>
NoRepeat(c) == \A i, j \in 1..Len(c) : i # j => c[i] # c[j]
Lists == {c \in UNION {[1..n -> Offered] : n \in 0..MaxCands} : NoRepeat(c)}
Init == G \in GasLimits /\ cands = <<>> /\ res = NoResult /\ mined = FALSE
Mine(c) == /\ ~mined /\ c \in Lists
           /\ mined' = TRUE /\ cands' = c
           /\ res' = Walk(c, G, Gas, MinGas, FALSE, Dv, NoResult)
           /\ UNCHANGED G
Next == \E c \in Lists : Mine(c)
Spec == Init /\ [][Next]_vars
\* ---- the clause of C07 about miner-side discards
NoTraceOfDiscarded ==
  mined => LET ref == Walk(res.sel, G, Gas, MinGas, FALSE, {}, NoResult) IN
           /\ ref.sel = res.sel /\ ref.inv = <<>>        \* the packaged list is packaged again as a whole ...
           /\ ref.tok = res.tok                            \* ... and leaves exactly the same writes
\* every candidate is packaged, reported invalid or left for later - never two of them
Classified == mined => /\ \A i \in 1..Len(res.sel) : \A j \in 1..Len(res.inv) : res.sel[i] # res.inv[j]
                       /\ \A i \in 1..Len(res.sel) : \E j \in 1..Len(cands) : cands[j] = res.sel[i]
                       /\ \A i \in 1..Len(res.inv) : \E j \in 1..Len(cands) : cands[j] = res.inv[i]
====
