SPECIFICATION Spec
CONSTANTS Contracts <- McContracts
 Sender = "U"
 Creators = {}
 Slots <- McSlots2
 InitBal <- McInitBal
 InitStor <- McInitStor2
 Kinds <- McKinds2
 Vals = {0, 1}
 SendVals = {0, 1}
 SuicideTo = {"U", "A"}
 G0 = 4
 MaxDepth = 3
 MaxFan = 2
 DepthLimit = 1024
 DevS = FALSE
 DevG = FALSE
 JumpDests = {}
 ShapeAt <- McShapeAt
 DevJ = FALSE
 DevC = FALSE
VIEW ViewNoHist
INVARIANTS StaticIsNoop GasWithinSupplied DepthBound NoCrash JournalMarksOrdered CodeOnlyByCreation
PROPERTIES JumpIsFrameLocal FailedFrameIsNoop OkKeepsEffects GasNeverGrows CollisionIsNoop
CHECK_DEADLOCK FALSE
