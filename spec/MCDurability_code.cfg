SPECIFICATION Spec
CONSTANTS NB = 2
 MaxCrash = 2
 RepairTornTail = FALSE
 RepairAtomicContext = FALSE
 MaxEdge = 0
 ScanStride = "align"
 CaskAdvance = "align"
 RepairScanPromotes = FALSE
INVARIANTS TypeOK Opens StableNotOlder StableClosed DurablyClosed AccountsExact ContextFresh
CHECK_DEADLOCK FALSE
