SPECIFICATION Spec
CONSTANTS NB = 2
 MaxCrash = 2
 RepairTornTail = FALSE
 RepairAtomicContext = FALSE
 RepairScanPromotes = FALSE
INVARIANTS TypeOK Opens StableNotOlder StableClosed DurablyClosed AccountsExact ContextFresh
CHECK_DEADLOCK FALSE
