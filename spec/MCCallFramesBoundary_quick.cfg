SPECIFICATION Spec
CONSTANTS Ops <- AllOps
 FullOps <- QuickFull
 FullData = {"EXTCODECOPY"}
 SampleMod = 16
 SampleSeed = @SEED@
 Model = "exact"
INVARIANTS TypeOK RangesDecided TinyNeverBetter StaticRefusesWrites StaticOnlyAddsFailures ReturnDataBounds PaddedCopies ZeroLengthIsFree ContentsDefined ImplBoundsAgree TailDestsInvalid ShapeDoesNotDecide
CHECK_DEADLOCK FALSE
