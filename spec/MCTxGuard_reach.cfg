SPECIFICATION Spec
CONSTANTS Times <- McTimesQ
 RootTimes <- McRootQ
 ExpChoices <- McExpQ
 Menu <- McMenu
 QMenu <- McQMenu
 MaxBlocks = 3
 HashCoversSig = FALSE
 Encs = {"c"}
 CarrierKeyed = FALSE
 PruneLife = 1800
 ReloadLife = 1800
INVARIANTS NeverPruned
CHECK_DEADLOCK FALSE
