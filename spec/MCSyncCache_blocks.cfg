SPECIFICATION Spec
CONSTANTS Blocks <- McBlocks
 MaxH = 5
 Confirms <- McNoConfirms
 Ops <- McOpsB
 MaxSteps = 0
 History = FALSE
 BugAddMiddle = FALSE
INVARIANTS TypeOK Refines CacheSorted SizeOK FirstOK IterateAscending KeysOK
CHECK_DEADLOCK FALSE
