---- MODULE MCSyncCache ----
EXTENDS SyncCache
\* five heights, two distinct blocks at heights 2 and 4
McBlocks == {10, 20, 21, 30, 40, 41, 50}
McBlocks1 == {10, 20, 30, 40, 50}
McNoBlocks == {}
\* <<height, block, signer>>: two signers for block x of height 1, another block y at height 1, block z at height 2, w at 3
McConfirms == {<<1, "x", 1>>, <<1, "x", 2>>, <<1, "y", 1>>, <<2, "z", 1>>, <<3, "w", 2>>}
McNoConfirms == {}
McOpsB == {"Add", "Iter", "Remove", "Clear"}
McOpsAdd == {"Add"}
McOpsC == {"Push", "Pop", "CClear"}
====
