---- MODULE MCRanking ----
(* Model-checking instance of Ranking.tla; all constants are plain values set in the MCRanking_*.cfg files. *)
EXTENDS Ranking
====
