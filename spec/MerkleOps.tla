---- MODULE MerkleOps ----
(* C17, common/merkle/merkle_tree.go transcribed over an abstract hash Hp(left, right), passed as an
   operator argument: the design module uses a free hash, the trace module the real Keccak256 as an oracle.
   The tree is built as a queue: nodes starts as the leaf list; while offset < Len(nodes) - 1 the hash of
   nodes[offset], nodes[offset + 1] is appended and offset advances by two (an odd tail is therefore
   paired with the first hash of the next level).  The 0-based indices of the Go code are kept in the
   comments; sequences are 1-based. *)
EXTENDS Naturals, Sequences, FiniteSets

Nodes(Hp(_, _), leaves) ==                     \* calculateNodes / HashNodes(): off is the 0-based offset
  LET RECURSIVE B(_, _)
      B(nodes, off) == IF off + 1 < Len(nodes) THEN B(Append(nodes, Hp(nodes[off + 1], nodes[off + 2])), off + 2)
                       ELSE nodes
  IN B(leaves, 0)
Root(Hp(_, _), empty, leaves) == IF leaves = <<>> THEN empty ELSE Nodes(Hp, leaves)[Len(Nodes(Hp, leaves))]

\* FindSiblingNodes(src, srcNodes): position of the FIRST node equal to src, then the path of
\* <<hash, side>> pairs up to the root; side "L": the sibling is the left one, "R": the right one, "root": end marker
FirstIdx(x, nodes) == IF \E i \in 1..Len(nodes) : nodes[i] = x
                      THEN CHOOSE i \in 1..Len(nodes) : nodes[i] = x /\ \A j \in 1..(i - 1) : nodes[j] # x
                      ELSE 0
RECURSIVE PathFrom(_, _)
PathFrom(n, nodes) ==                          \* n: 0-based index as in findPath
  LET half == (Len(nodes) + 1) \div 2 IN
  IF n = Len(nodes) - 1 THEN <<<<nodes[n + 1], "root">>>>
  ELSE IF n % 2 = 1 THEN <<<<nodes[n], "L">>>> \o PathFrom(half + n \div 2, nodes)
  ELSE <<<<nodes[n + 2], "R">>>> \o PathFrom(half + n \div 2, nodes)
Siblings(x, nodes) == PathFrom(FirstIdx(x, nodes) - 1, nodes)      \* defined when x occurs in nodes

\* Verify(target, root, siblings)
Verify(Hp(_, _), target, root, sib) ==
  LET RECURSIVE F(_, _)
      F(acc, s) == IF s = <<>> THEN acc
                   ELSE F(IF Head(s)[2] = "L" THEN Hp(Head(s)[1], acc)
                          ELSE IF Head(s)[2] = "R" THEN Hp(acc, Head(s)[1]) ELSE acc, Tail(s))
  IN F(target, sib) = root
====
