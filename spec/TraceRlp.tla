---- MODULE TraceRlp ----
(* C14 part 1, code side.  Every line is what the REAL codec (/repo/common/rlp) did on one input:
     dec     a byte string decoded into interface{}, []byte, string, [1]byte, [2]byte, uint64, uint32, uint8,
             *big.Int, bool, struct{uint64; []byte}, and scanned by Split / CountValues
     enc     a nested value encoded by EncodeToBytes
     encint  an unsigned integer (given by its minimal big-endian bytes) encoded as uint64 and *big.Int
   A line is consumed only when every real result equals what Rlp.tla defines; a line carrying
   "panic" is never consumed (TraceBase.Ev). *)
EXTENDS Rlp, TraceBase

DecOK(e) ==
  LET d == Decode(e.bs) IN
    /\ e.any   = d                                   \* same value, or both reject
    /\ e.bytes = AsBytes(d)
    /\ e.u64   = AsUint(d, 8)
    /\ e.u32   = AsUint(d, 4)
    /\ e.u8    = AsUint(d, 1)
    /\ e.big   = AsUint(d, 0)
    /\ e.bool  = AsBool(d)
    /\ e.str   = AsBytes(d)
    /\ e.arr1  = AsArray(d, 1)
    /\ e.arr2  = AsArray(d, 2)
    /\ e.pair  = AsPair(d)
    /\ e.split = Split(e.bs)
    /\ e.count = CountTop(e.bs)
    \* canonicity restated on the real result: what the code accepted re-encodes to the very input
    /\ (e.any.k # "err" => Encode(e.any) = e.bs)

EncOK(e) == e.ok /\ e.out = Encode(e.v) /\ Decode(e.out) = e.v

IntOK(e) == LET enc == Encode(Str(e.b)) IN
              /\ e.big = enc
              /\ (Len(e.b) <= 8 => e.u64 = enc)
              /\ (Len(e.b) > 8 => e.u64 = <<-1>>)

TDec == Ev("dec") /\ DecOK(E)
TEnc == Ev("enc") /\ EncOK(E)
TInt == Ev("encint") /\ IntOK(E)
TraceNext == TDec \/ TEnc \/ TInt
TraceSpec == l = 1 /\ [][TraceNext]_l
====
