---- MODULE TraceConsensus ----
(* C03 (and the "a refused block changes nothing" clause of C02) as a monitor over traces of the REAL engine.
   After every engine call the harness logs the node's observable chain state: stable, head, the unconfirmed
   tree, the stable chain by height and, for every block, the distinct nodes RECOVERED from the confirm
   signatures stored with it (numbered as identities; 0 = a signer that is not a deputy of any term).  The monitor adopts the logged state and
   requires every step to satisfy what the property demands; ancestry comes from the universe logged at reset.

   TERMS.  "The deputies of its term": a reset event of a term configuration carries `depof`, the deputy set of every
   height (as the harness configured the chain: genesis deputies below TermDuration+InterimDuration+1, from there on the
   set elected by the latest snapshot block that is at least InterimDuration+1 below), and `pl`, the length of the prefix 1..pl every node under test is given first
   (blocks 1..pl of the universe; block b of the generating spec is block pl+b here).  Signers are logged as
   identities (a node that is a deputy of ANY term keeps its number), so the monitor counts, for a block of height h,
   only the recovered signers that are in depof[h], against ceil(2/3 |depof[h]|).  Without `depof` every height has
   the deputies 1..nd (one term).  The reset event of the current line is Trace[l - E.step]. *)
EXTENDS TraceBase
VARIABLES parent, miner, nd, self, known, conf, stable, head
mvars == <<parent, miner, nd, self, known, conf, stable, head, l>>
G == 0
Dep == 1..nd
Q == (2 * nd + 2) \div 3
RECURSIVE Anc(_)
Anc(b) == IF b = G THEN {G} ELSE {b} \cup Anc(parent[b])
H(b) == Cardinality(Anc(b)) - 1
KnownOf(e) == {G} \cup ToSet(e.unconf) \cup ToSet(e.chain)
ConfOf(e) == [b \in KnownOf(e) \ {G} |-> ToSet(e.signers[ToString(b)])]
Voters(b, c) == (c[b] \cap Dep) \cup {miner[b]}            \* distinct deputies of the term, the miner included (one term)
R == Trace[l - E.step]                                      \* the reset event of the behaviour the current line belongs to
PLOf(r) == IF "pl" \in DOMAIN r THEN r.pl ELSE 0
DepOf(r, h) == IF "depof" \in DOMAIN r THEN ToSet(r.depof[h]) ELSE 1..r.nd   \* the deputies that sign height h
QOf(r, h) == (2 * Cardinality(DepOf(r, h)) + 2) \div 3
DepAtT(h) == DepOf(R, h)
QAtT(h) == QOf(R, h)
VotersT(b, c) == (c[b] \cap DepAtT(H(b))) \cup {miner[b]}  \* distinct deputies OF THE BLOCK'S TERM, the miner included
\* the stable chain by height is the path from genesis to the stable block (chain[i] is the ancestor of height i)
ChainOK(e) == /\ Len(e.chain) = H(e.stable)
              /\ \A i \in 1..Len(e.chain) : parent[e.chain[i]] = (IF i = 1 THEN G ELSE e.chain[i - 1])
              /\ (e.chain # <<>> => e.chain[Len(e.chain)] = e.stable)
\* what C03 demands of one step from (known, conf, stable, head) to the logged state
\* ... only with 2/3 (rounded up) distinct deputies of its term
QuorumStep(e) == e.stable # stable => Cardinality(VotersT(e.stable, ConfOf(e))) >= QAtT(H(e.stable))
\* ... and everything else
StepRest(e) ==
  LET kn2 == KnownOf(e)  c2 == ConfOf(e)  st2 == e.stable  hd2 == e.head  anc2 == Anc(e.stable) IN
  /\ st2 \in kn2 /\ hd2 \in kn2
  /\ \A b \in kn2 \ {G} : parent[b] \in kn2                 \* no orphan is ever stored
  /\ stable \in anc2                                         \* only forward, to a descendant: never replaced, never forks
  /\ ChainOK(e)                                              \* its ancestors are stable with it, by height
  /\ st2 \in Anc(hd2)                                        \* the head is the stable block or a descendant
  /\ \A b \in kn2 : b \in anc2 \/ st2 \in Anc(b)             \* nothing beside the stable chain survives
  /\ \A b \in (kn2 \cap known) \ {G} : conf[b] \subseteq c2[b]  \* a stored confirm is never lost again
StepOK(e) == StepRest(e) /\ QuorumStep(e)
\* nothing changed - except that a deputy node's own background goroutine (batchConfirmStable) may have added the
\* node's own confirm to blocks that are already stable
Same(e) == /\ KnownOf(e) = known /\ e.stable = stable /\ e.head = head
           /\ \A b \in known \ {G} : \/ ConfOf(e)[b] = conf[b]
                                      \/ (b \in Anc(stable) /\ conf[b] \subseteq ConfOf(e)[b] /\ ConfOf(e)[b] \ conf[b] = {self})
Adopt(e) == known' = KnownOf(e) /\ conf' = ConfOf(e) /\ stable' = e.stable /\ head' = e.head /\ UNCHANGED <<parent, miner, nd, self>>
\* a behaviour starts from genesis or, in a term configuration, from the prefix 1..pl the node has just been given with
\* the confirms of all deputies of each block's term: it must have accepted every block of it, each is stable with 2/3 of its term
TReset == /\ Ev("reset")
          /\ parent' = E.parent /\ miner' = E.miner /\ nd' = E.nd /\ self' = E.self
          \* every block of the universe exists: the node's deputy manager let the harness schedule the miner it chose among the
          \* deputies of the block's term (depof) at the block's height; the node accepted every block of the prefix
          /\ ("build_err" \in DOMAIN E => E.build_err = "")
          /\ ("prefix_err" \in DOMAIN E => E.prefix_err = "")
          /\ LET pl == PLOf(E)
                 cf == [b \in 1..pl |-> ToSet(E.signers[ToString(b)])] IN
             /\ E.stable = pl /\ E.head = pl /\ E.unconf = <<>>
             /\ Len(E.chain) = pl /\ \A i \in 1..pl : E.chain[i] = i /\ E.parent[i] = i - 1
             /\ \A b \in 1..pl : Cardinality((cf[b] \cap DepOf(E, b)) \cup {E.miner[b]}) >= QOf(E, b)
             /\ known' = {G} \cup 1..pl /\ conf' = (IF pl = 0 THEN <<>> ELSE cf) /\ stable' = pl /\ head' = pl
TBlock == /\ Ev("InsertBlock") \/ Ev("RejectBlock") \/ Ev("InsertBlockDup")
          /\ LET b == E.a[1] + PLOf(R) IN
             IF E.ok THEN /\ b \notin known /\ parent[b] \in known /\ H(b) > H(stable)   \* C02: parent known, above stable
                          /\ miner[b] \in DepAtT(H(b))                                  \* C02: mined by a deputy of its term
                          /\ b \in KnownOf(E) /\ KnownOf(E) \subseteq known \cup {b}
                          /\ StepOK(E)
                     ELSE Same(E)                                                      \* a refused block changes nothing
          /\ Adopt(E)
TConfirms == /\ Ev("InsertConfirms") \/ Ev("IgnoreConfirms") \/ Ev("InsertConfirmsDup")
             /\ KnownOf(E) \subseteq known
             /\ StepOK(E)
             /\ (~E.ok => Same(E))
             /\ Adopt(E)
TraceNext == TReset \/ TBlock \/ TConfirms
TraceSpec == /\ l = 1 /\ parent = <<>> /\ miner = <<>> /\ nd = 0 /\ self = 0 /\ known = {G} /\ conf = <<>> /\ stable = G /\ head = G
             /\ [][TraceNext]_mvars
====
