---- MODULE TraceConsensus ----
(* C03 (and the "a refused block changes nothing" clause of C02) as a monitor over traces of the REAL engine.
   After every engine call the harness logs the node's observable chain state: stable, head, the unconfirmed
   tree, the stable chain by height and, for every block, the distinct deputies RECOVERED from the confirm
   signatures stored with it (0 = a signer that is not a deputy).  The monitor adopts the logged state and
   requires every step to satisfy what the property demands; ancestry comes from the universe logged at reset. *)
EXTENDS TraceBase
VARIABLES parent, miner, nd, self, known, conf, stable, head
mvars == <<parent, miner, nd, self, known, conf, stable, head, l>>
G == 0
Dep == 1..nd
Q == (2 * nd + 2) \div 3
RECURSIVE Anc(_)
Anc(b) == IF b = G THEN {G} ELSE {b} \cup Anc(parent[b])
H(b) == Cardinality(Anc(b)) - 1
KnownOf(e) == {G} \cup ToSet(e.unconf) \cup ToSet(e.chain)
ConfOf(e) == [b \in KnownOf(e) \ {G} |-> ToSet(e.signers[ToString(b)])]
Voters(b, c) == (c[b] \cap Dep) \cup {miner[b]}            \* distinct deputies of the term, the miner included
ChainOK(e) == /\ Len(e.chain) = H(e.stable)
              /\ \A i \in 1..Len(e.chain) : H(e.chain[i]) = i /\ e.chain[i] \in Anc(e.stable)
\* what C03 demands of one step from (known, conf, stable, head) to the logged state
StepOK(e) ==
  LET kn2 == KnownOf(e)  c2 == ConfOf(e)  st2 == e.stable  hd2 == e.head IN
  /\ st2 \in kn2 /\ hd2 \in kn2
  /\ \A b \in kn2 \ {G} : parent[b] \in kn2                 \* no orphan is ever stored
  /\ stable \in Anc(st2)                                     \* only forward, to a descendant: never replaced, never forks
  /\ (st2 # stable => Cardinality(Voters(st2, c2)) >= Q)     \* only with 2/3 (rounded up) distinct deputies
  /\ ChainOK(e)                                              \* its ancestors are stable with it, by height
  /\ st2 \in Anc(hd2)                                        \* the head is the stable block or a descendant
  /\ \A b \in kn2 : b \in Anc(st2) \/ st2 \in Anc(b)         \* nothing beside the stable chain survives
  /\ \A b \in (kn2 \cap known) \ {G} : conf[b] \subseteq c2[b]  \* a stored confirm is never lost again
\* nothing changed - except that a deputy node's own background goroutine (batchConfirmStable) may have added the
\* node's own confirm to blocks that are already stable
Same(e) == /\ KnownOf(e) = known /\ e.stable = stable /\ e.head = head
           /\ \A b \in known \ {G} : \/ ConfOf(e)[b] = conf[b]
                                      \/ (b \in Anc(stable) /\ conf[b] \subseteq ConfOf(e)[b] /\ ConfOf(e)[b] \ conf[b] = {self})
Adopt(e) == known' = KnownOf(e) /\ conf' = ConfOf(e) /\ stable' = e.stable /\ head' = e.head /\ UNCHANGED <<parent, miner, nd, self>>
TReset == /\ Ev("reset")
          /\ parent' = E.parent /\ miner' = E.miner /\ nd' = E.nd /\ self' = E.self
          /\ E.stable = G /\ E.head = G /\ E.unconf = <<>> /\ E.chain = <<>>
          /\ known' = {G} /\ conf' = <<>> /\ stable' = G /\ head' = G
TBlock == /\ Ev("InsertBlock") \/ Ev("RejectBlock") \/ Ev("InsertBlockDup")
          /\ LET b == E.a[1] IN
             IF E.ok THEN /\ b \notin known /\ parent[b] \in known /\ H(b) > H(stable)   \* C02: parent known, above stable
                          /\ b \in KnownOf(E) /\ KnownOf(E) \subseteq known \cup {b}
                          /\ StepOK(E)
                     ELSE Same(E)                                                      \* a refused block changes nothing
          /\ Adopt(E)
TConfirms == /\ Ev("InsertConfirms") \/ Ev("IgnoreConfirms") \/ Ev("InsertConfirmsDup")
             /\ KnownOf(E) \subseteq known
             /\ StepOK(E)
             /\ (~E.ok => Same(E))
             /\ Adopt(E)
TraceNext == TReset \/ TBlock \/ TConfirms
TraceSpec == /\ l = 1 /\ parent = <<>> /\ miner = <<>> /\ nd = 0 /\ self = 0 /\ known = {G} /\ conf = <<>> /\ stable = G /\ head = G
             /\ [][TraceNext]_mvars
====
