SPECIFICATION Spec
CONSTANTS NB = 2
 MaxCrash = 2
 RepairTornTail = TRUE
 RepairAtomicContext = FALSE
 RepairScanPromotes = TRUE
INVARIANTS Opens
CHECK_DEADLOCK FALSE
