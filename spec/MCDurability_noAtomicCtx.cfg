SPECIFICATION Spec
CONSTANTS NB = 2
 MaxCrash = 2
 RepairTornTail = TRUE
 RepairAtomicContext = FALSE
 MaxEdge = 0
 ScanStride = "align"
 CaskAdvance = "align"
 RepairScanPromotes = TRUE
INVARIANTS Opens
CHECK_DEADLOCK FALSE
