---- MODULE CallFramesBoundary ----
(* C16, the BOUNDARY-OPERAND layer: what the property demands of ONE instruction fed with operands on the edges of
   every range the platform has to check (chain/vm/instructions.go, memory_table.go, gas_table.go, common.go,
   analysis.go).  Shared by the enumerator MCCallFramesBoundary.tla (design side) and the judge of the real runs
   TraceCallFramesBoundary.tla.

   A tuple is (opcode, one CLASS per operand, context).  Operand classes are boundary values
       0 1 31 32 33   N-1 N N+1   2^32-1 2^32   2^63 2^64-1 2^64 2^64+1   2^128 2^255 2^256-1
   where N is the length the operand is measured against (memory size, return data / call data / code length, the
   balance for a value, the stipend for a gas operand, the word width for arithmetic): the full products contain every
   pair whose sum or product wraps at 2^32, 2^63, 2^64 or 2^256 (WrapPairs below).  Addresses and jump destinations
   have classes of their own.  Contexts: with / without a prior call that left return data, inside a read-only frame
   or not, ample / tiny gas.

   The CODE a jump executes in is an operand too (classes "tailop", "tailm", "padr", "clen"): how the byte string ends -
   with a PUSHn whose data is cut off by the end of the code after m of its n bytes (n, m on the edges of the 8-byte
   groups a jump-destination analysis works in), at every length modulo 8, short or far longer than any code the platform
   stores.  A destination is valid iff it is a JUMPDEST byte that is not PUSH data - whatever follows it in the code.

   Numbers are 256-bit naturals (little-endian digit vectors, base 2^16: TLC integers have 32 bits), so that the
   demands are stated with EXACT arithmetic - a memory range ends at off + len, return data is in bounds iff
   off + len <= N - and not with the arithmetic of some machine word. *)
EXTENDS Integers, Sequences, FiniteSets, TLC

\* ------------------------------------------------------------------ 256-bit naturals
B == 65536
ND == 17                                                        \* 16 digits = 256 bits, one more for the carry of a sum
Zero == <<0, 0, 0, 0, 0, 0, 0, 0, 0, 0, 0, 0, 0, 0, 0, 0, 0>>
FromInt(n) == <<n % B, n \div B, 0, 0, 0, 0, 0, 0, 0, 0, 0, 0, 0, 0, 0, 0, 0>>                   \* 0 <= n < 2^31
Tup(f) == <<f[1], f[2], f[3], f[4], f[5], f[6], f[7], f[8], f[9], f[10], f[11], f[12], f[13], f[14], f[15], f[16], f[17]>>
Pow2(e) == Tup([i \in 1..ND |-> IF i = (e \div 16) + 1 THEN 2 ^ (e % 16) ELSE 0])
Ones(k) == Tup([i \in 1..ND |-> IF i <= k THEN B - 1 ELSE 0])                                    \* 2^(16k) - 1
\* (unrolled: TLC evaluates LET definitions once and tuples eagerly - a recursive definition costs 50 times as much)
AddD(x, y) ==
  LET c1 == (x[1] + y[1]) \div B
      c2 == (x[2] + y[2] + c1) \div B
      c3 == (x[3] + y[3] + c2) \div B
      c4 == (x[4] + y[4] + c3) \div B
      c5 == (x[5] + y[5] + c4) \div B
      c6 == (x[6] + y[6] + c5) \div B
      c7 == (x[7] + y[7] + c6) \div B
      c8 == (x[8] + y[8] + c7) \div B
      c9 == (x[9] + y[9] + c8) \div B
      c10 == (x[10] + y[10] + c9) \div B
      c11 == (x[11] + y[11] + c10) \div B
      c12 == (x[12] + y[12] + c11) \div B
      c13 == (x[13] + y[13] + c12) \div B
      c14 == (x[14] + y[14] + c13) \div B
      c15 == (x[15] + y[15] + c14) \div B
      c16 == (x[16] + y[16] + c15) \div B
  IN <<(x[1] + y[1]) % B,
       (x[2] + y[2] + c1) % B,
       (x[3] + y[3] + c2) % B,
       (x[4] + y[4] + c3) % B,
       (x[5] + y[5] + c4) % B,
       (x[6] + y[6] + c5) % B,
       (x[7] + y[7] + c6) % B,
       (x[8] + y[8] + c7) % B,
       (x[9] + y[9] + c8) % B,
       (x[10] + y[10] + c9) % B,
       (x[11] + y[11] + c10) % B,
       (x[12] + y[12] + c11) % B,
       (x[13] + y[13] + c12) % B,
       (x[14] + y[14] + c13) % B,
       (x[15] + y[15] + c14) % B,
       (x[16] + y[16] + c15) % B,
       (x[17] + y[17] + c16) % B>>
CmpD(x, y) ==                                                   \* -1, 0, 1
  IF x[17] # y[17] THEN (IF x[17] < y[17] THEN -1 ELSE 1) ELSE
  IF x[16] # y[16] THEN (IF x[16] < y[16] THEN -1 ELSE 1) ELSE
  IF x[15] # y[15] THEN (IF x[15] < y[15] THEN -1 ELSE 1) ELSE
  IF x[14] # y[14] THEN (IF x[14] < y[14] THEN -1 ELSE 1) ELSE
  IF x[13] # y[13] THEN (IF x[13] < y[13] THEN -1 ELSE 1) ELSE
  IF x[12] # y[12] THEN (IF x[12] < y[12] THEN -1 ELSE 1) ELSE
  IF x[11] # y[11] THEN (IF x[11] < y[11] THEN -1 ELSE 1) ELSE
  IF x[10] # y[10] THEN (IF x[10] < y[10] THEN -1 ELSE 1) ELSE
  IF x[9] # y[9] THEN (IF x[9] < y[9] THEN -1 ELSE 1) ELSE
  IF x[8] # y[8] THEN (IF x[8] < y[8] THEN -1 ELSE 1) ELSE
  IF x[7] # y[7] THEN (IF x[7] < y[7] THEN -1 ELSE 1) ELSE
  IF x[6] # y[6] THEN (IF x[6] < y[6] THEN -1 ELSE 1) ELSE
  IF x[5] # y[5] THEN (IF x[5] < y[5] THEN -1 ELSE 1) ELSE
  IF x[4] # y[4] THEN (IF x[4] < y[4] THEN -1 ELSE 1) ELSE
  IF x[3] # y[3] THEN (IF x[3] < y[3] THEN -1 ELSE 1) ELSE
  IF x[2] # y[2] THEN (IF x[2] < y[2] THEN -1 ELSE 1) ELSE
  IF x[1] # y[1] THEN (IF x[1] < y[1] THEN -1 ELSE 1) ELSE
  0
LeqD(x, y) == CmpD(x, y) <= 0
LtD(x, y) == CmpD(x, y) < 0
Small(x) == x[2] < 16384 /\ \A i \in 3..ND : x[i] = 0           \* below 2^30: fits a TLC integer
IntOf(x) == x[1] + B * x[2]
Low(x, k) == Tup([i \in 1..ND |-> IF i <= k THEN x[i] ELSE 0])  \* x modulo 2^(16k)
Fits(x, k) == \A i \in (k + 1)..ND : x[i] = 0                   \* x < 2^(16k)

\* ------------------------------------------------------------------ operand classes
VC == {"0", "1", "31", "32", "33", "N-1", "N", "N+1", "2^32-1", "2^32", "2^63", "2^64-1", "2^64", "2^64+1", "2^128", "2^255", "2^256-1"}
\* (a constant table: evaluated once)
ValTab == [c \in VC \ {"N-1", "N", "N+1"} |->
  CASE c = "0" -> Zero [] c = "1" -> FromInt(1) [] c = "31" -> FromInt(31) [] c = "32" -> FromInt(32) [] c = "33" -> FromInt(33)
    [] c = "2^32-1" -> Ones(2) [] c = "2^32" -> Pow2(32) [] c = "2^63" -> Pow2(63) [] c = "2^64-1" -> Ones(4)
    [] c = "2^64" -> Pow2(64) [] c = "2^64+1" -> AddD(Pow2(64), FromInt(1))
    [] c = "2^128" -> Pow2(128) [] c = "2^255" -> Pow2(255) [] c = "2^256-1" -> Ones(16)]
Val(c, n) == CASE c = "N-1" -> FromInt(n - 1) [] c = "N" -> FromInt(n) [] c = "N+1" -> FromInt(n + 1) [] OTHER -> ValTab[c]
ClassOK(c, n) == c \in VC /\ (c = "N-1" => n > 0)
\* addresses: returner contract, data contract, the same with bit 160 set (an address is the value modulo 2^160), the
\* sender (no code), the program itself, an account that never existed, the zero address, precompiles, all ones
AC == {"R", "D", "dirtyD", "dirtyR", "U", "self", "fresh", "zero", "pre1", "pre4", "pre5", "pre9", "max"}
\* jump destinations: the JUMPDEST, the byte behind it, a 0x5b byte that is push data, the edges of the code, and the
\* JUMPDEST plus a multiple of a machine word (a destination is the whole 256-bit value)
JC == {"dest", "dest+1", "pushdata", "0", "1", "N-1", "N", "N+1", "2^32-1", "2^32", "2^32+dest", "2^63", "2^63+dest",
       "2^64-1", "2^64", "2^64+dest", "2^128", "2^255", "2^255+dest", "2^256-1",
       "taildata"}                                              \* a 0x5b byte that is data of the PUSH the code ends with
\* how the code ends: the last instruction is PUSHn ("none": the program's own last byte) ...
TOC == {"none", "1", "2", "7", "8", "9", "15", "16", "17", "23", "24", "25", "31", "32"}
TailP(c) == CASE c = "none" -> 0 [] c = "1" -> 1 [] c = "2" -> 2 [] c = "7" -> 7 [] c = "8" -> 8 [] c = "9" -> 9 [] c = "15" -> 15 [] c = "16" -> 16
              [] c = "17" -> 17 [] c = "23" -> 23 [] c = "24" -> 24 [] c = "25" -> 25 [] c = "31" -> 31 [] c = "32" -> 32
\* ... of whose n data bytes m are there (each a 0x5b byte); the code length modulo 8; short, or 40 000 bytes longer
TMC == {"0", "1", "P-1", "P"}
TailM(p, c) == CASE c = "0" -> 0 [] c = "1" -> 1 [] c = "P-1" -> p - 1 [] c = "P" -> p
PRC == {"0", "1", "2", "3", "4", "5", "6", "7"}
LNC == {"short", "long"}
PlainTail == <<"none", "0", "0", "short">>
\* (every number of present bytes once)
TailOK(t) == /\ t[1] \in TOC /\ t[2] \in TMC /\ t[3] \in PRC /\ t[4] \in LNC
             /\ (t[1] = "none" => t = PlainTail)
             /\ (t[2] = "1" => TailP(t[1]) >= 3) /\ (t[2] = "P-1" => TailP(t[1]) >= 2)
TailRoles == {"tailop", "tailm", "padr", "clen"}
\* destinations that speak about the end of the code
JCT == {"dest", "taildata", "N-1", "N"}
WV == {"0", "1", "2^255", "2^256-1"}                            \* stored words
CV == {"0", "1", "2^32", "2^64", "2^255", "2^256-1"}            \* jump conditions: non-zero above every machine word

\* ------------------------------------------------------------------ the opcodes: operand roles, top of the stack first
Copy3 == {"CALLDATACOPY", "CODECOPY", "RETURNDATACOPY"}
CopyOps == Copy3 \cup {"EXTCODECOPY"}
LogOps == {"LOG0", "LOG1", "LOG2", "LOG3", "LOG4"}
Call7 == {"CALL", "CALLCODE"}
Call6 == {"DELEGATECALL", "STATICCALL"}
CallOps == Call7 \cup Call6
Arith1 == {"ISZERO", "NOT", "BLOCKHASH"}
Arith2 == {"ADD", "MUL", "SUB", "DIV", "SDIV", "MOD", "SMOD", "EXP", "SIGNEXTEND", "BYTE", "SHL", "SHR", "SAR",
           "LT", "GT", "SLT", "SGT", "EQ", "AND", "OR", "XOR"}
Arith3 == {"ADDMOD", "MULMOD"}
ArithOps == Arith1 \cup Arith2 \cup Arith3
AllOps == CopyOps \cup LogOps \cup CallOps \cup ArithOps \cup
          {"CALLDATALOAD", "MLOAD", "MSTORE", "MSTORE8", "SHA3", "RETURN", "REVERT", "CREATE", "JUMP", "JUMPI", "SLOAD", "SSTORE",
           "BALANCE", "EXTCODESIZE", "SELFDESTRUCT"}
Roles(op) ==
  CASE op \in Copy3 -> <<"moff", "doff", "len">>
    [] op = "EXTCODECOPY" -> <<"addr", "moff", "doff", "len">>
    [] op = "CALLDATALOAD" -> <<"doff">>
    [] op = "MLOAD" -> <<"moff">>
    [] op \in {"MSTORE", "MSTORE8"} -> <<"moff", "word">>
    [] op \in {"SHA3", "LOG0", "RETURN", "REVERT"} -> <<"moff", "len">>
    [] op = "LOG1" -> <<"moff", "len", "word">>
    [] op = "LOG2" -> <<"moff", "len", "word", "word">>
    [] op = "LOG3" -> <<"moff", "len", "word", "word", "word">>
    [] op = "LOG4" -> <<"moff", "len", "word", "word", "word", "word">>
    [] op = "CREATE" -> <<"value", "moff", "len">>
    [] op \in Call7 -> <<"gas", "addr", "value", "moff", "len", "moff", "len">>
    [] op \in Call6 -> <<"gas", "addr", "moff", "len", "moff", "len">>
    [] op = "JUMP" -> <<"jdest", "tailop", "tailm", "padr", "clen">>
    [] op = "JUMPI" -> <<"jdest", "word", "tailop", "tailm", "padr", "clen">>
    [] op \in {"SLOAD"} \cup Arith1 -> <<"word">>
    [] op = "SSTORE" -> <<"word", "word">>
    [] op \in {"BALANCE", "EXTCODESIZE", "SELFDESTRUCT"} -> <<"addr">>
    [] op \in Arith2 -> <<"word", "word">>
    [] op \in Arith3 -> <<"word", "word", "word">>
\* what the data offset / length of the opcode is measured against
Src(op) == CASE op = "RETURNDATACOPY" -> "rd" [] op \in {"CALLDATACOPY", "CALLDATALOAD"} -> "cd"
             [] op \in {"CODECOPY", "JUMP", "JUMPI"} -> "code" [] op \in {"EXTCODECOPY", "EXTCODESIZE"} -> "ext" [] OTHER -> "mem"
\* env: [ms, nc, rdn, nt, nx, bal] = memory size before the opcode, call data / return data / own code / foreign code
\* length, own balance
SrcLen(op, env) == CASE Src(op) = "rd" -> env.rdn [] Src(op) = "cd" -> env.nc [] Src(op) = "code" -> env.nt
                     [] Src(op) = "ext" -> env.nx [] OTHER -> env.ms
BaseN(op, i, env) ==
  LET r == Roles(op)[i] IN
  CASE r = "moff" -> env.ms [] r = "gas" -> 2300 [] r = "value" -> env.bal [] r = "word" -> 256
    [] r \in {"len", "doff"} -> SrcLen(op, env) [] OTHER -> 0
IsNum(op, i) == Roles(op)[i] \notin {"addr", "jdest"} \cup TailRoles
TailOf(op, cls) == IF op = "JUMP" THEN SubSeq(cls, 2, 5) ELSE IF op = "JUMPI" THEN SubSeq(cls, 3, 6) ELSE PlainTail
\* the operand values (Zero for the symbolic classes)
Vals(op, cls, env) == [i \in 1..Len(cls) |-> IF IsNum(op, i) THEN Val(cls[i], BaseN(op, i, env)) ELSE Zero]
WellFormed(op, cls, env) ==
  /\ op \in AllOps /\ Len(cls) = Len(Roles(op))
  /\ \A i \in 1..Len(cls) : CASE Roles(op)[i] = "addr" -> cls[i] \in AC
                              [] Roles(op)[i] = "jdest" -> cls[i] \in JC
                              [] Roles(op)[i] \in TailRoles -> TRUE
                              [] OTHER -> ClassOK(cls[i], BaseN(op, i, env))
  /\ op \in {"JUMP", "JUMPI"} => LET t == TailOf(op, cls) IN
                                   /\ TailOK(t)
                                   /\ (cls[1] = "taildata" => t[1] # "none" /\ TailM(TailP(t[1]), t[2]) >= 1)

\* ------------------------------------------------------------------ what the property demands
\* memory ranges <<offset, length>> the opcode touches; a range of length 0 touches nothing, wherever it lies
Ranges(op, v) ==
  CASE op \in Copy3 -> {<<v[1], v[3]>>}
    [] op = "EXTCODECOPY" -> {<<v[2], v[4]>>}
    [] op \in {"MLOAD", "MSTORE"} -> {<<v[1], FromInt(32)>>}
    [] op = "MSTORE8" -> {<<v[1], FromInt(1)>>}
    [] op \in {"SHA3", "RETURN", "REVERT"} \cup LogOps -> {<<v[1], v[2]>>}
    [] op = "CREATE" -> {<<v[2], v[3]>>}
    [] op \in Call7 -> {<<v[4], v[5]>>, <<v[6], v[7]>>}
    [] op \in Call6 -> {<<v[3], v[4]>>, <<v[5], v[6]>>}
    [] OTHER -> {}
End(r) == IF r[2] = Zero THEN Zero ELSE AddD(r[1], r[2])
\* memory costs 3 gas per word plus words^2/512: 4 KiB are paid for with 400 gas, 2^32 bytes cost 2^45 - no gas limit
\* of a block buys them.  No tuple lies in between (design invariant RangesDecided).
MemCap == 4096
Affordable(e) == Small(e) /\ IntOf(e) <= MemCap
TwoTo32Less1 == Ones(2)
Unaffordable(e) == LeqD(TwoTo32Less1, e)
MemFail(op, v) == \E r \in Ranges(op, v) : Unaffordable(End(r))
MemFine(op, v) == \A r \in Ranges(op, v) : Affordable(End(r))
Ceil32(n) == ((n + 31) \div 32) * 32
Max(S) == CHOOSE x \in S : \A y \in S : y <= x
\* memory size after the opcode (defined when MemFine)
ExpMs(op, v, env) == Max({env.ms} \cup {Ceil32(IntOf(End(r))) : r \in Ranges(op, v)})

\* state-changing instructions: refused inside a read-only frame
Writes(op, v) == op \in LogOps \cup {"SSTORE", "CREATE", "SELFDESTRUCT"} \/ (op = "CALL" /\ v[3] # Zero)
\* return data: in bounds iff offset + length <= size - EXACT sum
InBounds(off, len, n) == LeqD(AddD(off, len), FromInt(n))
ValidDest(c) == c = "dest"
OpFail(op, cls, v, env) ==
  CASE op = "RETURNDATACOPY" -> ~InBounds(v[2], v[3], env.rdn)
    [] op = "JUMP" -> ~ValidDest(cls[1])
    [] op = "JUMPI" -> v[2] # Zero /\ ~ValidDest(cls[1])
    [] op = "REVERT" -> TRUE
    [] OTHER -> FALSE
\* how the frame that executes the instruction must end: "ok" (success), "fail" (error or revert: undone), "any"
MustFail(op, cls, static, env) ==
  LET v == Vals(op, cls, env) IN (static /\ Writes(op, v)) \/ MemFail(op, v) \/ OpFail(op, cls, v, env)
Outcome(op, cls, static, gas, env) ==
  IF MustFail(op, cls, static, env) THEN "fail"
  ELSE IF gas = "tiny" \/ ~MemFine(op, Vals(op, cls, env)) THEN "any"
  ELSE "ok"

\* ------------------------------------------------------------------ contents (demanded whenever the frame succeeded)
Pat(salt, i) == ((i * 7 + salt) % 250) + 1                     \* byte i (from 0) of the call data (salt 3), the return data (101), D's code (57)
PreMem(env, i) == IF i < env.ms /\ i < env.nc THEN Pat(3, i) ELSE 0        \* memory before the opcode: the first ms call data bytes
\* byte j of the data a copy reads; beyond the end (or from an offset no data can have) it reads zeros.  data = the
\* code the harness deployed, for the copies that read code (<<>> otherwise: call data, return data and D are patterns)
SrcByte(op, cls, env, data, j) ==
  IF j >= SrcLen(op, env) THEN 0
  ELSE CASE op = "CALLDATACOPY" -> Pat(3, j) [] op = "RETURNDATACOPY" -> Pat(101, j)
         [] op = "EXTCODECOPY" /\ cls[1] \in {"D", "dirtyD"} -> Pat(57, j)
         [] OTHER -> data[j + 1]
NeedsData(op, cls) == op = "CODECOPY" \/ (op = "EXTCODECOPY" /\ cls[1] \in {"self", "R", "dirtyR"})
\* operands of a copy: memory offset, data offset, length
CopyArgs(op, v) == IF op = "EXTCODECOPY" THEN <<v[2], v[3], v[4]>> ELSE <<v[1], v[2], v[3]>>
\* the memory after a successful copy, byte i (from 0)
CopyMem(op, cls, v, env, data, i) ==
  LET a == CopyArgs(op, v)  len == IntOf(a[3])  m == IntOf(a[1]) IN
  IF len > 0 /\ i >= m /\ i < m + len
  THEN (IF Small(a[2]) THEN SrcByte(op, cls, env, data, IntOf(a[2]) + (i - m)) ELSE 0)
  ELSE PreMem(env, i)
\* result words the property fixes: where a jump lands, division by zero, an unaffordable value transfer
Res11 == FromInt(17)                                            \* the program fell through the jump
Res22 == FromInt(34)                                            \* the program continued at the JUMPDEST
HasRes(op, cls, v, env) ==
  \/ op \in {"JUMP", "JUMPI"}
  \/ op \in {"DIV", "SDIV", "MOD", "SMOD"} /\ v[2] = Zero
  \/ op \in Arith3 /\ v[3] = Zero
  \/ op \in Call7 /\ LtD(FromInt(env.bal), v[3])
  \/ op = "EXTCODESIZE"
ExpRes(op, cls, v, env) ==
  CASE op = "JUMP" -> Res22
    [] op = "JUMPI" -> IF v[2] = Zero THEN Res11 ELSE Res22
    [] op = "EXTCODESIZE" -> FromInt(env.nx)
    [] OTHER -> Zero
Word(d) == Append(d, 0)                                         \* a logged result word (16 digits)

\* ------------------------------------------------------------------ the arithmetic a careless implementation uses
\* (negative controls of the design run: each model must DISAGREE with InBounds on some enumerated tuple)
BoundsModel(model, off, len, n) ==
  CASE model = "exact" -> InBounds(off, len, n)
    [] model = "wrap64" -> Fits(off, 4) /\ Fits(len, 4) /\ LeqD(Low(AddD(off, len), 4), FromInt(n))     \* uint64 sum of checked operands
    [] model = "trunc64" -> LeqD(AddD(Low(off, 4), Low(len, 4)), FromInt(n))                           \* operands cut to 64 bits
    [] model = "wrap256" -> LeqD(Low(AddD(off, len), 16), FromInt(n))                                  \* sum modulo 2^256
    [] model = "trunc32" -> LeqD(Low(AddD(Low(off, 2), Low(len, 2)), 2), FromInt(n))                   \* 32-bit arithmetic
    [] model = "offonly" -> LeqD(off, FromInt(n))                                                      \* offset checked, sum not
\* pairs of powers of two whose product leaves a word of 2^k although both fit it (sizes are multiplied by gas prices, words are squared)
Exp2(c) == CASE c = "1" -> 0 [] c = "32" -> 5 [] c = "2^32" -> 32 [] c = "2^63" -> 63 [] c = "2^64" -> 64 [] c = "2^128" -> 128 [] c = "2^255" -> 255 [] OTHER -> -1
ProductWrapPairs(k) == {p \in VC \X VC : Exp2(p[1]) >= 0 /\ Exp2(p[2]) >= 0 /\ Exp2(p[1]) < k /\ Exp2(p[2]) < k /\ Exp2(p[1]) + Exp2(p[2]) >= k}
\* pairs of classes whose exact sum leaves the word although both operands fit it
WrapPairs(k, n) == {p \in VC \X VC : /\ ClassOK(p[1], n) /\ ClassOK(p[2], n) /\ Fits(Val(p[1], n), k) /\ Fits(Val(p[2], n), k)
                                     /\ ~Fits(AddD(Val(p[1], n), Val(p[2], n)), k)}
====
