SPECIFICATION Spec
CONSTANTS NB = 3
 MaxCrash = 2
 RepairTornTail = TRUE
 RepairAtomicContext = TRUE
 RepairScanPromotes = TRUE
INVARIANTS TypeOK Opens StableNotOlder StableClosed DurablyClosed AccountsExact ContextFresh
CHECK_DEADLOCK FALSE
