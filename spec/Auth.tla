---- MODULE Auth ----
(* C06: a transaction has an effect only if the holder(s) of the sender account authorised exactly its content.

   The object of the specification is a CASE: one transaction as an attacker or an honest user may hand it to a
   node, described by who signed what, under which signing scheme, at which stage.
     sender account   cfg  = sequence of the weights of its registered signers 1..Len(cfg)   (<<>> = plain account;
                             weight 0 = the key with that number is not registered)
     signature        [by, v, old, sch, who]
                      who = the account in whose name the key signs: "S" the sender account | "P" the other account
                            (configuration c.pcfg) | "Q" a second, plain, other account
                      by  = 0 that account's own key | i >= 1 the key of its registered signer i | 999 a foreign key
                            | 997 nobody (malformed signature bytes)
                      v   = 0 the signature as produced | 1 its s -> n-s re-encoding (same signer, other bytes)
                      old = TRUE: the signature was made BEFORE field c.f of the transaction was changed
                      sch = the SIGNING SCHEME (which signing hash the signer computed), Covers(sch) = the fields it commits to:
                            "default"  the sender pays the gas itself: every field                         (DefaultSigner)
                            "reimb"    the gas is reimbursed: every field but the gas terms                (ReimbursementTxSigner)
                            "payer"    the gas payer's statement: the sender signature bytes + gas terms   (GasPayerSigner)
     c.sigs / c.psigs the sender-side / payer-side signature lists of the transaction, in transaction order (removal / repetition /
                      substitution are simply other sequences; a signature made in one scheme or role and placed in the other list
                      is a signature with another sch).  The FORM of the transaction is what its format says: payer signatures
                      present = reimbursed form (sender signatures are read in scheme "reimb"), absent = default form.
     c.f              "none" or the one field changed after the `old` signatures were made
     c.gp0, c.gp      the gasPayer FIELD when the `old` signatures were made / as submitted: "absent" (no such member: the sender
                      pays) | "sender" (names the sender account) | "payer" (names P) | "payer2" (names Q); c.f = "gasPayer" iff they differ
     c.over           the list of sender signatures the payer signatures (scheme "payer") were made OVER, as positions of the submitted
                      list c.sigs (0: a signature that is not in it): <<1, .., Len(c.sigs)>> = the list that is submitted; a prefix = sender
                      signatures were added after the payer signed; longer / with 0 = removed or replaced since; a permutation = re-ordered;
                      <<1>> with c.sigs[1] a signature of another account = the payer's statement was given for ANOTHER transaction (whose
                      sender signature was put in front of the real ones: a multi-signature sender's weight count ignores unknown keys)
     c.via            the carrier in which the transaction reaches the node: "rlp" (p2p / blocks: an absent gasPayer member is the empty
                      string in that slot) | "json" (RPC: the member is missing)
     c.box            "none" | "ok": the transaction travels inside a box signed by the box sender | "bad": the box
                      itself is signed by a foreign key | "old": the box sender signed BEFORE field c.f of the
                      sub-transaction was changed (c.f = "sigs": before its first sender signature was replaced); the
                      box data now carries the changed sub-transaction (re-signed by its own holders or not: c.sigs)
     c.label          the output-only "hash" member of the sub-transaction's JSON form inside the box data:
                      "true" its real hash (what the node's encoder writes) | "none" absent | "kept" the hash of the
                      sub-transaction as it was before the change | "wrong" an arbitrary hash
     c.kind           transfer / vote / signers (re-configuration of the account's signers to c.ncfg) / asset
   Authorized is the property's notion (sets of distinct authorising holders; a signature counts when it was made in the
   scheme the transaction's form demands and nothing it covers changed afterwards; the gas terms need the holders of the
   account that pays).  Accepts is the decision procedure of the node (tx_processor.go verifyTransactionSigs /
   checkSignersWeight): recover every signature over the signing hash, look at the first one (plain account) or add up
   weights (multi-signature account).
   The system: an account whose registered signers are cfg now and were scfg in the last STABLE block; cases are offered
   one at a time; Offer(c) hands the transaction to a miner (a packaged re-configuration replaces cfg - in a recent, not
   yet stable block: scfg stays), Validate shows the resulting block to another node, Stabilise makes the head stable.
   While cfg # scfg the cases offered are those of the signers that WERE registered (they must no longer authorise) and
   of the ones that are.  TLC enumerates the case space (every Offer step of every reachable configuration) and checks on
   each step that Accepts never exceeds Authorized, that it does not fall short of it on canonical cases, and the
   algebraic clauses of the property (repetition, removal, foreign keys, re-encoding, tampering per scheme, scheme and
   role re-use, payer, exact threshold).  Dev holds named deviations of the real code (off in the design run, on in the
   negative controls). *)
EXTENDS Integers, Sequences, FiniteSets, TLC
CONSTANTS Weights,      \* weights a registered signer may have
          MaxSigners,   \* registered signers per account
          ExtraCfgs,    \* further account configurations (beyond MaxSigners)
          MaxSigs,      \* signatures per transaction in the signature sweep
          TamperFields, \* fields tampered in the tamper sweep
          PayCfgs,      \* payer account configurations
          PaySenders,   \* sender configurations used in the gas-payer sweeps
          PayFields,    \* fields tampered in the gas-payer sweep
          GpFields,     \* fields tampered (besides gasPayer itself) in the gasPayer-field sweep
          MaxOver,      \* length of the sender-signature lists a payer's statement was made over (sweep "over")
          BoxCfgs,      \* sender configurations used in the box sweep
          Kinds,        \* transaction kinds (besides transfer) in the kind sweep
          ReconfCfgs,   \* sender configurations used in the re-configuration sweep
          NewCfgs,      \* target configurations of re-configuration transactions
          Slices,       \* which sweeps are generated: subset of {"sigs","tamper","payer","junk","box","kinds","reconf","gp","over","stale"}
          Dev           \* deviations switched on (design: {})

Threshold == 100
Own == 0
Foreign == 999
Junk == 997                                   \* "signed" by nobody: 65 bytes with an impossible recovery id (v = 0) / 64 bytes (v = 1)
Fields == {"to", "amount", "gasPrice", "gasLimit", "data", "expiration", "chainID", "type", "toName", "message",
           "gasPayer", "version"}
GasTerms == {"gasPrice", "gasLimit"}

(* ------------------------------------------------------------------ what every signature commits to *)
SenderSchemes == {"default", "reimb"}
Schemes == SenderSchemes \cup {"payer"}
\* the fields a signature made in scheme sch covers ("sigs": the sender's signature bytes)
Covers(sch) == CASE sch = "default" -> Fields
                 [] sch = "reimb" -> Fields \ GasTerms
                 [] sch = "payer" -> GasTerms \cup {"sigs"}
\* "sigs" in the payer's statement is the WHOLE list of sender signatures, in order (and through them the content): the statement counts only
\* for the list it was made over
Ident(n) == [i \in 1..n |-> i]
SubmittedList(c) == Ident(Len(c.sigs))
FirstOnly(s) == IF Len(s) > 1 THEN <<s[1]>> ELSE s
GpVals == {"absent", "sender", "payer", "payer2"}
\* the account a gasPayer field makes pay the gas
PayerAcct(gp) == CASE gp \in {"absent", "sender"} -> "S" [] gp = "payer" -> "P" [] gp = "payer2" -> "Q"

SeqsUpTo(S, n) == UNION {[1..k -> S] : k \in 0..n}
Range(s) == {s[i] : i \in 1..Len(s)}
RECURSIVE SumSeq(_)
SumSeq(s) == IF s = <<>> THEN 0 ELSE Head(s) + SumSeq(Tail(s))
Sorted(w) == \A i \in 1..(Len(w) - 1) : w[i] <= w[i + 1]
\* account configurations ModifySignersTx admits (weights 1..100, total >= 100), up to the order of the signers
MultiCfgs == {w \in SeqsUpTo(Weights, MaxSigners) : Len(w) >= 1 /\ Sorted(w) /\ SumSeq(w) >= Threshold}
Configs == {<<>>} \cup MultiCfgs \cup ExtraCfgs

(* ------------------------------------------------------------------ the property's notion *)
Weight(cfg, p) == IF p \in 1..Len(cfg) THEN cfg[p] ELSE 0
RECURSIVE SumW(_, _)
SumW(cfg, P) == IF P = {} THEN 0 ELSE LET p == CHOOSE x \in P : TRUE IN Weight(cfg, p) + SumW(cfg, P \ {p})
\* the holders P (a SET of distinct principals) authorise for an account with configuration cfg
HolderAuth(cfg, P) == IF cfg = <<>> THEN Own \in P ELSE SumW(cfg, P) >= Threshold
\* the form of the transaction: payer signatures present = reimbursed (the sender signatures leave the gas terms to the payer signatures)
Form(c) == IF Len(c.psigs) >= 1 THEN "reimb" ELSE "default"
Reimbursed(c) == Form(c) = "reimb"
\* the scheme a signature in the sender / payer list must have been made in
Need(role, c) == IF role = "payer" THEN "payer" ELSE Form(c)
RoleSigs(role, c) == IF role = "payer" THEN c.psigs ELSE c.sigs
\* the registered signers of account a ("S" | "P" | "Q")
AcctCfg(cfg, c, a) == CASE a = "S" -> cfg [] a = "P" -> c.pcfg [] a = "Q" -> <<>>
\* a box sender signs the identities (content and signatures) of the sub-transactions
BoxScope == Fields \cup {"sigs"}
\* a signature counts iff it was made in the scheme its place demands and, when made before field f changed, f is outside what it covers.
\* (Neg_GasPayerFallbackInHash, a WRONG signing hash used only by a negative control: the hash takes the gas payer through the accessor
\* that substitutes the sender for an absent field, so a change between "absent" and "sender" is invisible to it.)
\* (Neg_PayerSignsFirstSig, another WRONG signing hash: the payer's statement takes only the first of several sender signatures.)
CountsD(D, role, c, s) == /\ \/ s.sch = Need(role, c)
                             \/ ("Neg_SchemeBlind" \in D /\ role = "sender" /\ s.sch \in SenderSchemes)
                          /\ \/ role # "payer"
                             \/ c.over = SubmittedList(c)
                             \/ ("Neg_PayerSignsFirstSig" \in D /\ FirstOnly(c.over) = FirstOnly(SubmittedList(c)))
                          /\ \/ ~s.old
                             \/ c.f \notin Covers(s.sch)
                             \/ ("Neg_GasPayerFallbackInHash" \in D /\ c.f = "gasPayer" /\ PayerAcct(c.gp0) = PayerAcct(c.gp))
Counts(role, c, s) == CountsD({}, role, c, s)
\* the distinct holders of account a whose signatures (in the list of that role) count
SignersOf(role, c, a) == LET ss == RoleSigs(role, c) IN {ss[i].by : i \in {j \in 1..Len(ss) : Counts(role, c, ss[j]) /\ ss[j].who = a}}
SenderOK(cfg, c) == HolderAuth(cfg, SignersOf("sender", c, "S"))
\* the gas terms are authorised by the holders of the account that pays: by the sender signatures themselves in the default form
\* (then the sender must be the one that pays), by payer signatures of that account's holders in the reimbursed form
PayerOK(cfg, c) == IF Reimbursed(c) THEN HolderAuth(AcctCfg(cfg, c, PayerAcct(c.gp)), SignersOf("payer", c, PayerAcct(c.gp)))
                   ELSE PayerAcct(c.gp) = "S"
\* the box sender authorised exactly the sub-transaction that is carried (whatever its JSON form claims about itself)
BoxOK(c) == c.box \in {"none", "ok"} \/ (c.box = "old" /\ c.f \notin BoxScope)
Authorized(cfg, c) == SenderOK(cfg, c) /\ PayerOK(cfg, c) /\ BoxOK(c)
\* every signature is a valid one of a distinct holder that carries authority: what an honest wallet produces
Holders(cfg) == IF cfg = <<>> THEN {Own} ELSE {i \in 1..Len(cfg) : cfg[i] > 0}
CanonSigs(kcfg, role, c, a) ==
  LET ss == RoleSigs(role, c) IN
  /\ \A i \in 1..Len(ss) : Counts(role, c, ss[i]) /\ ss[i].who = a /\ ss[i].by \in Holders(kcfg)
  /\ \A i, j \in 1..Len(ss) : i # j => ss[i].by # ss[j].by
Canonical(cfg, c) == /\ CanonSigs(cfg, "sender", c, "S")
                     /\ CanonSigs(AcctCfg(cfg, c, PayerAcct(c.gp)), "payer", c, PayerAcct(c.gp))
                     /\ c.label \in (IF c.box = "none" THEN {"true"} ELSE {"true", "none"})   \* (a wallet need not send the output-only member)

(* ------------------------------------------------------------------ the node's decision procedure *)
Garbage == 998     \* a signature over other content / of another account's holder recovers to an address without authority here
Recovered(D, role, c, a) == LET ss == RoleSigs(role, c) IN
  [i \in 1..Len(ss) |-> IF CountsD(D, role, c, ss[i]) /\ ss[i].who = a THEN ss[i].by ELSE Garbage]
CheckWeight(D, cfg, rec) ==
  /\ Len(rec) > 0
  /\ IF cfg = <<>> THEN rec[1] = Own                                   \* plain account: signers[0] == From
     ELSE IF "Dev_MultisigCountsRepeatedSigner" \in D
          THEN SumSeq([i \in 1..Len(rec) |-> Weight(cfg, rec[i])]) >= Threshold     \* weight added per signature
          ELSE SumW(cfg, Range(rec)) >= Threshold                                   \* weight added per distinct signer
WellFormed(sigs) == \A i \in 1..Len(sigs) : sigs[i].by # Junk
\* Wrong decision procedures, used only by the negative controls of the design run (never allowed on real traces):
\*   Neg_OwnPayerUnchecked        the payer signatures are looked at only when the named payer is another account
\*   Neg_BoxTrustsLabel           the box signing hash is built from what the sub-transaction's JSON form claims its hash to be
\*   Neg_GasPayerFallbackInHash   (CountsD) the sender's signing hash does not tell an absent gasPayer field from one naming the sender
\*   Neg_SchemeBlind              (CountsD) a sender signature is accepted whichever of the two sender schemes it was made in
\*   Neg_PayerSignsFirstSig       (CountsD) the payer's signing hash covers only the first sender signature when there are several
\*   Neg_StaleSigners             (Offer) the signers registered in the last stable block are consulted instead of the current ones
BoxCheck(D, c) ==
  IF "Neg_BoxTrustsLabel" \notin D \/ c.box \in {"none", "bad"} THEN BoxOK(c)
  ELSE LET claimsCarried == c.label \in {"true", "none"}  claimsFormer == c.label = "kept"  same == c.f \notin BoxScope IN
       IF c.box = "ok" THEN claimsCarried \/ (claimsFormer /\ same) ELSE claimsFormer \/ (claimsCarried /\ same)
AcceptsD(D, cfg, c) ==
  LET pa == PayerAcct(c.gp)  ownUnchecked == "Neg_OwnPayerUnchecked" \in D /\ pa = "S" IN
  /\ WellFormed(c.sigs) /\ (WellFormed(c.psigs) \/ ownUnchecked)   \* recoverSigners fails on the first signature that does not recover
  /\ IF Reimbursed(c) THEN CheckWeight(D, AcctCfg(cfg, c, pa), Recovered(D, "payer", c, pa)) \/ ownUnchecked
                      ELSE pa = "S"               \* no payer signatures: the (effective) gas payer must be the sender
  /\ CheckWeight(D, cfg, Recovered(D, "sender", c, "S"))
  /\ BoxCheck(D, c)                        \* the box signing hash is recomputed from the carried sub-transaction; c.label is not looked at
Accepts(cfg, c) == AcceptsD(Dev, cfg, c)

(* ------------------------------------------------------------------ the case space *)
NoCfg == <<>>
Sg(b, v, o, sch, who) == [by |-> b, v |-> v, old |-> o, sch |-> sch, who |-> who]
Sig(b, v, o) == Sg(b, v, o, "default", "S")           \* (scheme and account are filled in by Case from the form it describes)
Retag(sigs, sch, who) == [i \in 1..Len(sigs) |-> [sigs[i] EXCEPT !.sch = sch, !.who = who]]
\* the general case
GCase(cfg, kind, sigs, f, g0, g, pcfg, psigs, box, ncfg) ==
  [cfg |-> cfg, kind |-> kind, sigs |-> sigs, f |-> f, gp0 |-> g0, gp |-> g, pcfg |-> pcfg, psigs |-> psigs, box |-> box, ncfg |-> ncfg, label |-> "true",
   over |-> Ident(Len(sigs)), via |-> "rlp"]
\* the three honest forms, every signature made in the scheme of its form:
\*   pay = "self"   the sender pays (default form, gasPayer names the sender)
\*         "payer"  another account P (configuration pcfg) pays; psigs are signatures of P's holders
\*         "own"    the reimbursed form naming the sender account itself; psigs are signatures of its own holders
\* a changed gasPayer field (f = "gasPayer") names Q, whose holders signed nothing.
\* c.cfg: the sender configuration the case is meant for (the monitor judges against the really registered signers)
Case(cfg, kind, sigs, f, pay, pcfg, psigs, box, ncfg) ==
  LET g0 == IF pay = "payer" THEN "payer" ELSE "sender" IN
  GCase(cfg, kind, IF pay = "self" THEN sigs ELSE Retag(sigs, "reimb", "S"), f, g0, IF f = "gasPayer" THEN "payer2" ELSE g0,
        pcfg, IF psigs = <<>> THEN <<>> ELSE Retag(psigs, "payer", IF pay = "payer" THEN "P" ELSE "S"), box, ncfg)
Labelled(c, lb) == [c EXCEPT !.label = lb]
Over(c, ov) == [c EXCEPT !.over = ov]
Via(c, v) == [c EXCEPT !.via = v]
Labels == {"true", "none", "kept", "wrong"}
NoCase == Case(NoCfg, "none", <<>>, "none", "self", NoCfg, <<>>, "none", NoCfg)
Plain(cfg, kind, sigs) == Case(cfg, kind, sigs, "none", "self", NoCfg, <<>>, "none", NoCfg)
By(cfg) == {Own, Foreign} \cup 1..Len(cfg)
FreshSigs(cfg) == {Sig(b, v, FALSE) : b \in By(cfg), v \in {0, 1}}
\* increasing sequences of distinct holders (the non-empty subsets of the holders)
HolderSeqs(cfg) == {s \in SeqsUpTo(Holders(cfg), Cardinality(Holders(cfg))) : Len(s) >= 1 /\ \A i \in 1..(Len(s) - 1) : s[i] < s[i + 1]}
Full(cfg) == CHOOSE s \in HolderSeqs(cfg) : Len(s) = Cardinality(Holders(cfg))
SigsOf(hs, o) == [i \in 1..Len(hs) |-> Sig(hs[i], 0, o)]
\* every holder of account a (configuration kcfg) signs in scheme sch
AllSign(kcfg, a, o, sch) == LET hs == Full(kcfg) IN [i \in 1..Len(hs) |-> Sg(hs[i], 0, o, sch, a)]
\* 1. every sequence of at most MaxSigs signatures by holders, the own key and a foreign key, in both encodings
SigCases(cfg) == {Plain(cfg, "transfer", s) : s \in SeqsUpTo(FreshSigs(cfg), MaxSigs)}
\* 2. one field changed after some (at least one) of an honest set of signatures was made
TamperCases(cfg) ==
  UNION {{Case(cfg, "transfer", [i \in 1..Len(hs) |-> Sig(hs[i], 0, o[i])], f, "self", NoCfg, <<>>, "none", NoCfg) :
            o \in [1..Len(hs) -> BOOLEAN], f \in TamperFields} : hs \in HolderSeqs(cfg)}
\* 3. somebody else pays the gas
SenderVariants(cfg, o) == {SigsOf(Full(cfg), o), <<Sig(Foreign, 0, o)>>}
                          \cup (IF cfg = <<>> THEN {} ELSE {<<Sig(1, 0, o), Sig(1, 1, o)>>, <<Sig(1, 0, o)>>})
PayerSigs(pcfg, f) == {Sig(b, v, o) : b \in By(pcfg), v \in {0, 1}, o \in (IF f = "none" THEN {FALSE} ELSE BOOLEAN)}
\* who is named as payer: another account of every payer configuration, or the sender account itself
PayForms(cfg) == {<<"payer", pc>> : pc \in PayCfgs} \cup {<<"own", cfg>>}
PayerCases(cfg) ==
  IF cfg \notin PaySenders THEN {} ELSE
  UNION {UNION {{Case(cfg, "transfer", ss, f, p[1], p[2], ps, "none", NoCfg) :
                   ss \in SenderVariants(cfg, f # "none"), ps \in SeqsUpTo(PayerSigs(p[2], f), 2)} : p \in PayForms(cfg)} : f \in PayFields \cup {"none"}}
PayerVariants(pc) == {SigsOf(Full(pc), FALSE), <<>>, <<Sig(Foreign, 0, FALSE)>>}
                     \cup (IF pc = <<>> THEN {} ELSE {<<Sig(1, 0, FALSE), Sig(1, 1, FALSE)>>})
\* 3b. malformed signature bytes among at most two signatures
JunkCases(cfg) == {Plain(cfg, "transfer", s) : s \in SeqsUpTo(FreshSigs(cfg) \cup {Sig(Junk, 0, FALSE), Sig(Junk, 1, FALSE)}, 2)
                                                      \ SeqsUpTo(FreshSigs(cfg), 2)}
\* 3c. WHAT EACH SIGNATURE COMMITS TO, per signing scheme and per value of the gasPayer field.  The field is g0 when the `old`
\*     signatures are made and g when the transaction is submitted (g0 # g: the field is the one that changed - made absent, made
\*     explicit, pointed at another account, the payer swapped; g0 = g: another field f changed, or none).  The holders of the sender
\*     account sign in either sender scheme, before or after the change; payer signatures: none (dropped / never added), by the holders
\*     of the account the field named before, by those of the account it names now (before / after a change they cover).  Also: the
\*     sender's own signatures copied into the payer list, and payer-scheme signatures put into the sender list (role re-use).
GpVariantsN(cfg, kind, g0, g, pc, f, box, n) ==
  LET acfg(a) == CASE a = "S" -> cfg [] a = "P" -> pc [] a = "Q" -> <<>>
      olds == IF f \in {"none", "sigs"} THEN {FALSE} ELSE BOOLEAN     \* (no sender signature covers the signature bytes)
      polds == IF f \in Covers("payer") THEN BOOLEAN ELSE {FALSE}     \* (a payer signature made before a change outside what it covers: the same bytes)
      ss == {AllSign(cfg, "S", o, sch) : o \in olds, sch \in SenderSchemes}
      ps == {<<>>} \cup {AllSign(acfg(a), a, o, "payer") : a \in {PayerAcct(g0), PayerAcct(g)}, o \in polds} IN
  {GCase(cfg, kind, s, f, g0, g, pc, p, box, n) : s \in ss, p \in ps} \cup
  (IF f # "none" THEN {} ELSE
     {GCase(cfg, kind, AllSign(cfg, "S", FALSE, "reimb"), f, g0, g, pc, AllSign(cfg, "S", FALSE, "reimb"), box, n),
      GCase(cfg, kind, AllSign(cfg, "S", FALSE, "payer"), f, g0, g, pc, AllSign(acfg(PayerAcct(g)), PayerAcct(g), FALSE, "payer"), box, n)})
GpVariants(cfg, kind, g0, g, pc, f, box) == GpVariantsN(cfg, kind, g0, g, pc, f, box, NoCfg)
GpFieldsOf(g0, g) == IF g0 # g THEN {"gasPayer"} ELSE {"none"} \cup GpFields
GpPayCfgs(g0, g) == IF "payer" \in {g0, g} THEN PayCfgs ELSE {NoCfg}
\* every case of S also in the JSON carrier (the member missing / present as text)
BothCarriers(S) == S \cup {Via(c, "json") : c \in S}
GpCasesOf(cfg, fs) ==
  UNION {UNION {UNION {GpVariants(cfg, "transfer", gg[1], gg[2], pc, f, "none") : f \in GpFieldsOf(gg[1], gg[2]) \cap fs} : pc \in GpPayCfgs(gg[1], gg[2])} : gg \in GpVals \X GpVals}
GpCases(cfg) ==
  IF cfg \notin PaySenders THEN {} ELSE
  GpCasesOf(cfg, GpFields) \cup BothCarriers(GpCasesOf(cfg, {"none", "gasPayer"}))     \* (another field changed: one carrier)
\* 3c'. the same for the other kinds of transaction (a vote, a re-configuration of the signers to n): the member absent / naming the sender /
\*      naming another account; dropped, added or pointed elsewhere after the sender signatures (either scheme) were made; both carriers
KindGpVals == {"absent", "sender", "payer2"}
KindGpCases(cfg, k, n) ==
  IF "gp" \notin Slices \/ cfg \notin PaySenders THEN {} ELSE
  BothCarriers(UNION {GpVariantsN(cfg, k, gg[1], gg[2], NoCfg, IF gg[1] = gg[2] THEN "none" ELSE "gasPayer", "none", n) : gg \in KindGpVals \X KindGpVals})
\* 3d. WHAT THE PAYER'S STATEMENT COMMITS TO WHEN THE SENDER HAS SEVERAL SIGNATURES.  The submitted list of sender signatures: those of the
\*     sender's holders, alone or with the sender signature of ANOTHER transaction (another account's key: a multi-signature sender's weight
\*     count ignores it) in front / in between / behind.  The holders of the account that pays (another account of every payer configuration,
\*     or the sender account itself) made their statement over the list ov: every sequence of at most MaxOver positions of the submitted list
\*     and 0 (a signature that is not in it) - the submitted list, its first element, a prefix (sender signatures added after the payer
\*     signed), a longer list (removed since), a re-ordering, nothing at all, the list of the other transaction (<<i>>, i the position of
\*     the foreign signature: a payer's statement moved from the transaction it was given for onto this one)
AlienSig == Sg(Own, 0, FALSE, "reimb", "Q")
InsertAt(s, i, x) == [j \in 1..(Len(s) + 1) |-> IF j < i THEN s[j] ELSE IF j = i THEN x ELSE s[j - 1]]
OverSenders(cfg) == LET hs == AllSign(cfg, "S", FALSE, "reimb") IN {hs} \cup {InsertAt(hs, i, AlienSig) : i \in 1..(Len(hs) + 1)}
Min(a, b) == IF a < b THEN a ELSE b
OverCasesOf(cfg, pays, box, n) ==
  UNION {UNION {{Over(GCase(cfg, "transfer", ss, "none", pp[1], pp[1], pp[3], AllSign(pp[3], pp[2], FALSE, "payer"), box, NoCfg), ov) :
                   ov \in SeqsUpTo(0..Len(ss), Min(Len(ss) + 1, n))} : ss \in OverSenders(cfg)} : pp \in pays}
\* (as a sub-transaction of a box: statements over at most two signatures, a plain other account pays)
OverCases(cfg) ==
  IF cfg \notin PaySenders THEN {} ELSE
  OverCasesOf(cfg, {<<"payer", "P", pc>> : pc \in PayCfgs} \cup {<<"sender", "S", cfg>>}, "none", MaxOver) \cup
  (IF cfg \in BoxCfgs /\ "box" \in Slices THEN OverCasesOf(cfg, {<<"payer", "P", <<>>>>}, "ok", Min(2, MaxOver)) ELSE {})
\* 4a. the box data is not what the node's encoder would have written for the box that was signed
BoxFields == (TamperFields \ {"version"}) \cup {"sigs"}
BoxForgeCases(cfg) ==
  \* the sub-transaction changed after ("old") / before ("ok") the box sender signed; re-signed by all its holders (a validly signed
  \* substitute) or not; labelled with its real hash, no hash, the hash of the sub-transaction it replaces, an arbitrary hash
  {Labelled(Case(cfg, "transfer", SigsOf(Full(cfg), o), f, "self", NoCfg, <<>>, b, NoCfg), lb) :
     o \in BOOLEAN, f \in BoxFields, b \in {"old", "ok"}, lb \in Labels} \cup
  \* unchanged sub-transaction (properly signed / signed by a foreign key), forged label, box signed by its sender / a foreign key
  {Labelled(Case(cfg, "transfer", s, "none", "self", NoCfg, <<>>, b, NoCfg), lb) :
     s \in {SigsOf(Full(cfg), FALSE), <<Sig(Foreign, 0, FALSE)>>}, b \in {"ok", "bad"}, lb \in {"none", "wrong"}} \cup
  \* reimbursed sub-transaction whose payer changed the gas terms (and re-signed, or not) after the box sender signed
  UNION {{Labelled(Case(cfg, "transfer", SigsOf(Full(cfg), TRUE), f, p[1], p[2], SigsOf(Full(p[2]), o), "old", NoCfg), lb) :
            o \in BOOLEAN, f \in BoxFields \cap GasTerms, lb \in Labels} : p \in PayForms(cfg)}
\* 4b. a sub-transaction whose gasPayer member is absent / names its sender / names another account, the member dropped, added or
\*     pointed elsewhere before / after the box sender signed (all the signature variants of 3c)
BoxGpVals == {"absent", "sender", "payer2"}
BoxGpOf(cfg, k) ==
  UNION {UNION {GpVariants(cfg, k, gg[1], gg[2], NoCfg, IF gg[1] = gg[2] THEN "none" ELSE "gasPayer", b) :
                  b \in (IF gg[1] = gg[2] THEN {"ok"} ELSE {"ok", "old"})} : gg \in BoxGpVals \X BoxGpVals}
BoxGpCases(cfg) == BoxGpOf(cfg, "transfer") \cup (IF cfg \in PaySenders /\ "vote" \in Kinds THEN BoxGpOf(cfg, "vote") ELSE {})
\* 4. inside a box (also: a reimbursed transaction inside a box)
BoxCases(cfg) ==
  IF cfg \notin BoxCfgs THEN {} ELSE
  {Case(cfg, "transfer", s, "none", "self", NoCfg, <<>>, b, NoCfg) : s \in SeqsUpTo(FreshSigs(cfg), 2), b \in {"ok", "bad"}} \cup
  {Case(cfg, "transfer", SigsOf(Full(cfg), TRUE), f, "self", NoCfg, <<>>, "ok", NoCfg) : f \in TamperFields \ {"version"}} \cup   \* (a box with a sub-transaction of another version does not parse)
  UNION {{Case(cfg, "transfer", ss, "none", p[1], p[2], ps, "ok", NoCfg) : ss \in SenderVariants(cfg, FALSE), ps \in PayerVariants(p[2])} : p \in PayForms(cfg)} \cup
  BoxForgeCases(cfg) \cup
  (IF "gp" \in Slices THEN BoxGpCases(cfg) ELSE {})
\* 5. other kinds of transaction
KindCases(cfg) ==
  {Plain(cfg, k, s) : k \in Kinds, s \in SeqsUpTo(FreshSigs(cfg), 2)} \cup
  {Case(cfg, k, SigsOf(Full(cfg), TRUE), f, "self", NoCfg, <<>>, "none", NoCfg) : k \in Kinds \cap {"vote"}, f \in TamperFields \cap {"to", "data", "type", "amount"}} \cup
  \* the account reimburses itself: honest / gas terms changed after every signature was made
  {Case(cfg, k, SigsOf(Full(cfg), f # "none"), f, "own", cfg, SigsOf(Full(cfg), f # "none"), "none", NoCfg) : k \in Kinds, f \in {"none"} \cup (TamperFields \cap GasTerms)} \cup
  \* no gasPayer member: honest; the member dropped / added after every signature was made (all the variants of 3c for the PaySenders)
  (IF "gp" \notin Slices THEN {} ELSE
   {GCase(cfg, k, AllSign(cfg, "S", gg[1] # gg[2], "default"), IF gg[1] = gg[2] THEN "none" ELSE "gasPayer", gg[1], gg[2], NoCfg, <<>>, "none", NoCfg) :
      k \in Kinds, gg \in {<<"absent", "absent">>, <<"sender", "absent">>, <<"absent", "sender">>}}) \cup
  UNION {KindGpCases(cfg, k, NoCfg) : k \in Kinds \cap {"vote"}}
\* 6. the account's signers are replaced (the decision is taken against the signers registered BEFORE the transaction)
ReconfCases(cfg) ==
  IF cfg \notin ReconfCfgs THEN {} ELSE
  {Case(cfg, "signers", s, "none", "self", NoCfg, <<>>, "none", n) : n \in NewCfgs \ {cfg}, s \in SeqsUpTo(FreshSigs(cfg), 2)} \cup
  {Case(cfg, "signers", SigsOf(Full(cfg), TRUE), "data", "self", NoCfg, <<>>, "none", n) : n \in NewCfgs \ {cfg}} \cup
  UNION {KindGpCases(cfg, "signers", n) : n \in NewCfgs \ {cfg}}
\* the sweep named sl for an account with configuration k.  (The sweeps are enumerated one by one - see Next: TLC builds the union of
\* large sets of records with a linear search per element.)
Sweeps == {"sigs", "tamper", "payer", "junk", "box", "kinds", "reconf", "gp", "over"}
CasesOf(sl, k) == CASE sl = "sigs" -> SigCases(k)
                    [] sl = "tamper" -> {c \in TamperCases(k) : \E i \in 1..Len(c.sigs) : c.sigs[i].old}
                    [] sl = "payer" -> PayerCases(k)
                    [] sl = "junk" -> JunkCases(k)
                    [] sl = "box" -> BoxCases(k)
                    [] sl = "kinds" -> KindCases(k)
                    [] sl = "reconf" -> ReconfCases(k)
                    [] sl = "gp" -> GpCases(k)
                    [] sl = "over" -> OverCases(k)
                    [] OTHER -> {}
\* 7. the account's signers were replaced in a recent block that is not stable yet (now: k, in the last stable block: s).  Every non-empty
\*    subset of the holders registered THEN and of those registered NOW signs a transfer; both sets pay the gas of the reimbursed form
\*    naming the account itself; the former holders try to put themselves back.
StaleCases(k, s) ==
  IF "stale" \notin Slices \/ k = s THEN {} ELSE
  {Plain(k, "transfer", SigsOf(hs, FALSE)) : hs \in HolderSeqs(s) \cup HolderSeqs(k)} \cup
  {Case(k, "transfer", SigsOf(Full(k), FALSE), "none", "own", k, SigsOf(Full(h), FALSE), "none", NoCfg) : h \in {k, s}} \cup
  {Case(k, "transfer", SigsOf(Full(s), FALSE), "none", "own", k, SigsOf(Full(k), FALSE), "none", NoCfg)} \cup
  (IF s \in NewCfgs THEN {Case(k, "signers", SigsOf(Full(s), FALSE), "none", "self", NoCfg, <<>>, "none", s)} ELSE {})

ASSUME NewCfgs \subseteq Configs

(* ------------------------------------------------------------------ the system *)
VARIABLES cfg,    \* registered signers of the sender account
          scfg,   \* its registered signers in the last stable block
          phase,  \* 0: idle | 1: a transaction was handed to the miner and its block is on its way to another node
          cur,    \* the last case handed to the miner (history)
          acc     \* the miner packaged it (history)
vars == <<cfg, scfg, phase, cur, acc>>
View == <<cfg, scfg, phase>>              \* cur / acc only record the last step: nothing later depends on them
Init == cfg \in Configs /\ scfg = cfg /\ phase = 0 /\ cur = NoCase /\ acc = FALSE
\* the signers the node consults: the current ones
Consulted == IF "Neg_StaleSigners" \in Dev THEN scfg ELSE cfg
\* the transaction is handed to a mining node; a packaged re-configuration replaces the account's signers (in a block that is not stable yet)
Handed(c) == /\ phase = 0 /\ c.cfg = cfg
             /\ phase' = 1 /\ cur' = c /\ acc' = Accepts(Consulted, c)
             /\ cfg' = IF Accepts(Consulted, c) /\ c.kind = "signers" THEN c.ncfg ELSE cfg
             /\ UNCHANGED scfg
Offer(c) == cfg = scfg /\ Handed(c)
\* the same while the account's signers differ from those (s) of the last stable block
OfferStale(c, s) == cfg # scfg /\ s = scfg /\ Handed(c)
\* the block with it (the miner's, or one forged by a dishonest deputy if the miner refused) reaches another node
Validate == phase = 1 /\ phase' = 0 /\ UNCHANGED <<cfg, scfg, cur, acc>>
\* enough deputies confirm the head block: the re-configuration is part of the stable state
Stabilise == phase = 0 /\ cfg # scfg /\ scfg' = cfg /\ UNCHANGED <<cfg, phase, cur, acc>>
\* (every quantifier ranges over a constant set: TLC enumerates them once and labels each step with the case)
Next == \/ \E k \in Configs : \E sl \in Sweeps \cap Slices : \E c \in CasesOf(sl, k) : Offer(c)
        \/ \E k \in NewCfgs : \E s \in Configs : \E c \in StaleCases(k, s) : OfferStale(c, s)
        \/ Validate
        \/ Stabilise
Spec == Init /\ [][Next]_vars

(* ------------------------------------------------------------------ clauses
   Each clause is a predicate on (signers registered BEFORE the step, the case, the miner's decision); it is checked
   as an action property on every Offer step, i.e. on every enumerated case. *)
\* only authorised transactions have an effect
CEffectOnlyIfAuthorized(k, c, a) == a => Authorized(k, c)
\* ... and the honest ones do (the check is not vacuous)
CCanonicalAccepted(k, c, a) == Canonical(k, c) /\ Authorized(k, c) => a
\* keep only the first signature of every signer
RECURSIVE Dedup(_, _)
Dedup(sigs, seen) == IF sigs = <<>> THEN <<>>
                     ELSE IF <<Head(sigs).who, Head(sigs).by>> \in seen THEN Dedup(Tail(sigs), seen)
                     ELSE <<Head(sigs)>> \o Dedup(Tail(sigs), seen \cup {<<Head(sigs).who, Head(sigs).by>>})
Without(s, i) == [j \in 1..(Len(s) - 1) |-> IF j < i THEN s[j] ELSE s[j + 1]]
RECURSIVE ValidOnly(_, _, _)
ValidOnly(role, c, sigs) == IF sigs = <<>> THEN <<>>
                            ELSE (IF Counts(role, c, Head(sigs)) THEN <<Head(sigs)>> ELSE <<>>) \o ValidOnly(role, c, Tail(sigs))
\* repeating a signer (same bytes or re-encoded) never turns a refused transaction into an accepted one
\* (the same case with the sender signatures s: payer statements that were made over the submitted list are made over s)
WithSigs(c, s) == [c EXCEPT !.sigs = s, !.over = IF c.over = SubmittedList(c) THEN Ident(Len(s)) ELSE c.over]
CRepeatNeverHelps(k, c, a) ==
  a => Accepts(k, [WithSigs(c, Dedup(ValidOnly("sender", c, c.sigs), {})) EXCEPT
                            !.psigs = Dedup(ValidOnly("payer", c, c.psigs), {}),
                            !.f = "none", !.gp0 = c.gp])
\* no acceptance rests on a foreign key
NotForeign(s) == s.by # Foreign
CForeignNeverHelps(k, c, a) ==
  a => Accepts(k, [WithSigs(c, SelectSeq(c.sigs, NotForeign)) EXCEPT !.psigs = SelectSeq(c.psigs, NotForeign)])
\* removing a (well-formed) signature from a multi-signature transaction that is refused never makes it accepted (unless the removal
\* restores the very list a payer's statement was made over)
CRemovalNeverHelps(k, c, a) ==
  ~a /\ k # <<>> /\ (Reimbursed(c) => c.over = SubmittedList(c)) =>
     \A i \in 1..Len(c.sigs) : c.sigs[i].by # Junk => ~Accepts(k, WithSigs(c, Without(c.sigs, i)))
\* the encoding of a signature is irrelevant for authorisation
CEncodingIrrelevant(k, c, a) ==
  Authorized(k, c) <=> Authorized(k, [c EXCEPT !.sigs = [i \in 1..Len(c.sigs) |-> [c.sigs[i] EXCEPT !.v = 0]],
                                               !.psigs = [i \in 1..Len(c.psigs) |-> [c.psigs[i] EXCEPT !.v = 0]]])
\* a field changed after ALL sender signatures were made, within what each of them covers, makes the transaction ineffective
CTamperFalsifies(k, c, a) ==
  (\A i \in 1..Len(c.sigs) : c.sigs[i].old /\ c.f \in Covers(c.sigs[i].sch)) => ~a
\* the gasPayer member is signed content in both sender schemes: dropped, added or pointed elsewhere after all sender signatures: ineffective
CGasPayerFieldBinds(k, c, a) ==
  c.gp0 # c.gp /\ (\A i \in 1..Len(c.sigs) : c.sigs[i].old) => ~a
\* a signature made in one scheme (or role) does not authorise in another: sender signatures all made in a scheme other than the one the
\* form demands (payer signatures added to / dropped from a signed transaction), or payer signatures none of which is a payer's statement
CSchemeBinds(k, c, a) ==
  /\ (\A i \in 1..Len(c.sigs) : c.sigs[i].sch # Form(c)) => ~a
  /\ (Reimbursed(c) /\ \A i \in 1..Len(c.psigs) : c.psigs[i].sch # "payer") => ~a
\* gas terms (or sender signatures) changed after ALL payer signatures were made: ineffective; another account named without a payer signature:
\* ineffective; payer signatures none of which is by a holder of the account that is named (the payer swapped): ineffective
CPayerBinds(k, c, a) ==
  /\ (Reimbursed(c) /\ c.f \in Covers("payer") /\ \A i \in 1..Len(c.psigs) : c.psigs[i].old) => ~a
  /\ (~Reimbursed(c) /\ PayerAcct(c.gp) # "S") => ~a
  /\ (Reimbursed(c) /\ \A i \in 1..Len(c.psigs) : c.psigs[i].who # PayerAcct(c.gp)) => ~a
\* the payer's statement binds the WHOLE list of sender signatures, in order: made over another list - the first signature only, a prefix (sender
\* signatures added since), a longer list (removed since), a re-ordering, the list of another transaction - it authorises nothing
CPayerBindsSigList(k, c, a) == Reimbursed(c) /\ c.over # SubmittedList(c) => ~a
\* whoever pays: a changed field has an effect only under a signature made AFTER the change, in the scheme that is read, that covers it (no
\* field is left to nobody - in particular the gas terms of a reimbursed transaction, also when the sender reimburses itself)
CChangeCovered(k, c, a) ==
  a /\ c.f \in Fields => \/ \E i \in 1..Len(c.sigs) : ~c.sigs[i].old /\ c.sigs[i].sch = Form(c) /\ c.f \in Covers(c.sigs[i].sch)
                         \/ Reimbursed(c) /\ c.f \in Covers("payer") /\ \E i \in 1..Len(c.psigs) : ~c.psigs[i].old /\ c.psigs[i].sch = "payer"
\* a sub-transaction changed (or its signatures replaced) after the box sender signed makes the box ineffective
CBoxBinds(k, c, a) == c.box = "old" /\ c.f \in BoxScope => ~a
\* what the JSON form of a sub-transaction claims its hash to be is not content: it neither grants nor removes authority
CLabelIrrelevant(k, c, a) == /\ Authorized(k, c) <=> Authorized(k, Labelled(c, "true"))
                             /\ a <=> Accepts(k, Labelled(c, "true"))
\* the threshold is exact
CThresholdExact(k, c, a) ==
  k # <<>> /\ c.f = "none" /\ ~Reimbursed(c) /\ PayerAcct(c.gp) = "S" /\ c.box = "none" /\ WellFormed(c.sigs)
           /\ (\A i \in 1..Len(c.sigs) : c.sigs[i].sch = "default" /\ c.sigs[i].who = "S") =>
    (a <=> SumW(k, Range([i \in 1..Len(c.sigs) |-> c.sigs[i].by])) >= Threshold)
\* a re-configuration takes effect exactly when it is packaged
CReconf(k, c, a) == cfg' = IF a /\ c.kind = "signers" THEN c.ncfg ELSE k
OnOffer(P(_, _, _)) == phase' = 1 => P(cfg, cur', acc')
EffectOnlyIfAuthorized == [][OnOffer(CEffectOnlyIfAuthorized)]_vars
CanonicalAccepted == [][OnOffer(CCanonicalAccepted)]_vars
RepeatNeverHelps == [][OnOffer(CRepeatNeverHelps)]_vars
ForeignNeverHelps == [][OnOffer(CForeignNeverHelps)]_vars
RemovalNeverHelps == [][OnOffer(CRemovalNeverHelps)]_vars
EncodingIrrelevant == [][OnOffer(CEncodingIrrelevant)]_vars
TamperFalsifies == [][OnOffer(CTamperFalsifies)]_vars
GasPayerFieldBinds == [][OnOffer(CGasPayerFieldBinds)]_vars
SchemeBinds == [][OnOffer(CSchemeBinds)]_vars
PayerBinds == [][OnOffer(CPayerBinds)]_vars
PayerBindsSigList == [][OnOffer(CPayerBindsSigList)]_vars
ThresholdExact == [][OnOffer(CThresholdExact)]_vars
Reconf == [][OnOffer(CReconf)]_vars
ChangeCovered == [][OnOffer(CChangeCovered)]_vars
BoxBinds == [][OnOffer(CBoxBinds)]_vars
LabelIrrelevant == [][OnOffer(CLabelIrrelevant)]_vars
====
