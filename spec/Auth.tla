---- MODULE Auth ----
(* C06: a transaction has an effect only if the holder(s) of the sender account authorised exactly its content.

   The object of the specification is a CASE: one transaction as an attacker or an honest user may hand it to a
   node, described by who signed what.
     sender account   cfg  = sequence of the weights of its registered signers 1..Len(cfg)   (<<>> = plain account)
     signature        [by, v, old]
                      by  = 0 the account's own key | i >= 1 the key of registered signer i | 999 a foreign key
                            | 997 nobody (malformed signature bytes)
                      v   = 0 the signature as produced | 1 its s -> n-s re-encoding (same signer, other bytes)
                      old = TRUE: the signature was made BEFORE field f of the transaction was changed
     c.sigs           the sender-side signatures, in transaction order (removal / repetition / substitution of
                      signatures are simply other sequences)
     c.f              "none" or the one field changed after the `old` signatures were made
     c.pay            "self": the sender pays the gas | "payer": another account (configuration c.pcfg, signatures
                      c.psigs) pays; then the sender signs everything but the gas terms and the payer signs the
                      sender signatures + gasPrice + gasLimit | "own": the same reimbursed FORM, but the account named
                      as gas payer is the sender account itself (c.psigs are then signatures of holders of the sender
                      account: by = 0 its own key, i its registered signer i; c.pcfg repeats c.cfg)
     c.box            "none" | "ok": the transaction travels inside a box signed by the box sender | "bad": the box
                      itself is signed by a foreign key | "old": the box sender signed BEFORE field c.f of the
                      sub-transaction was changed (c.f = "sigs": before its first sender signature was replaced); the
                      box data now carries the changed sub-transaction (re-signed by its own holders or not: c.sigs)
     c.label          the output-only "hash" member of the sub-transaction's JSON form inside the box data:
                      "true" its real hash (what the node's encoder writes) | "none" absent | "kept" the hash of the
                      sub-transaction as it was before the change | "wrong" an arbitrary hash
     c.kind           transfer / vote / signers (re-configuration of the account's signers to c.ncfg) / asset
   Authorized is the property's notion (sets of distinct authorising holders).  Accepts is the decision procedure
   of the node (tx_processor.go verifyTransactionSigs / checkSignersWeight): recover every signature over the
   signing hash, look at the first one (plain account) or add up weights (multi-signature account).
   The system: an account (cfg) to which cases are offered one at a time; Offer(c) hands the transaction to a miner
   (a packaged re-configuration replaces cfg), Validate shows the resulting block to another node.  TLC enumerates
   the case space (every Offer step of every reachable configuration) and checks on each step that Accepts never
   exceeds Authorized, that it does not fall short of it on canonical cases, and the algebraic clauses of the
   property (repetition, removal, foreign keys, re-encoding, tampering, payer, exact threshold).  Dev holds named
   deviations of the real code (off in the design run, on in the negative control). *)
EXTENDS Integers, Sequences, FiniteSets, TLC
CONSTANTS Weights,      \* weights a registered signer may have
          MaxSigners,   \* registered signers per account
          ExtraCfgs,    \* further account configurations (beyond MaxSigners)
          MaxSigs,      \* signatures per transaction in the signature sweep
          TamperFields, \* fields tampered in the tamper sweep
          PayCfgs,      \* payer account configurations
          PaySenders,   \* sender configurations used in the gas-payer sweep
          PayFields,    \* fields tampered in the gas-payer sweep
          BoxCfgs,      \* sender configurations used in the box sweep
          Kinds,        \* transaction kinds (besides transfer) in the kind sweep
          ReconfCfgs,   \* sender configurations used in the re-configuration sweep
          NewCfgs,      \* target configurations of re-configuration transactions
          Slices,       \* which sweeps are generated: subset of {"sigs","tamper","payer","junk","box","kinds","reconf"}
          Dev           \* deviations switched on (design: {})

Threshold == 100
Own == 0
Foreign == 999
Junk == 997                                   \* "signed" by nobody: 65 bytes with an impossible recovery id (v = 0) / 64 bytes (v = 1)
Fields == {"to", "amount", "gasPrice", "gasLimit", "data", "expiration", "chainID", "type", "toName", "message",
           "gasPayer", "version"}
GasTerms == {"gasPrice", "gasLimit"}
PayerScope == GasTerms \cup {"sigs"}          \* what the payer signs ("sigs": the sender's signature bytes)

SeqsUpTo(S, n) == UNION {[1..k -> S] : k \in 0..n}
Range(s) == {s[i] : i \in 1..Len(s)}
RECURSIVE SumSeq(_)
SumSeq(s) == IF s = <<>> THEN 0 ELSE Head(s) + SumSeq(Tail(s))
Sorted(w) == \A i \in 1..(Len(w) - 1) : w[i] <= w[i + 1]
\* account configurations ModifySignersTx admits (weights 1..100, total >= 100), up to the order of the signers
MultiCfgs == {w \in SeqsUpTo(Weights, MaxSigners) : Len(w) >= 1 /\ Sorted(w) /\ SumSeq(w) >= Threshold}
Configs == {<<>>} \cup MultiCfgs \cup ExtraCfgs

(* ------------------------------------------------------------------ the property's notion *)
Weight(cfg, p) == IF p \in 1..Len(cfg) THEN cfg[p] ELSE 0
RECURSIVE SumW(_, _)
SumW(cfg, P) == IF P = {} THEN 0 ELSE LET p == CHOOSE x \in P : TRUE IN Weight(cfg, p) + SumW(cfg, P \ {p})
\* the holders P (a SET of distinct principals) authorise for an account with configuration cfg
HolderAuth(cfg, P) == IF cfg = <<>> THEN Own \in P ELSE SumW(cfg, P) >= Threshold
Reimbursed(c) == c.pay # "self"                \* reimbursed form: the sender signatures leave the gas terms to the payer signatures
PaidBySender(c) == c.pay \in {"self", "own"}   \* whose balance pays the gas
\* the account whose holders have to sign as gas payer
PayCfg(cfg, c) == IF c.pay = "own" THEN cfg ELSE c.pcfg
SenderScope(c) == IF Reimbursed(c) THEN Fields \ GasTerms ELSE Fields
\* a box sender signs the identities (content and signatures) of the sub-transactions
BoxScope == Fields \cup {"sigs"}
\* a signature made before field f changed still signs the present content iff f is outside what it covers
Counts(scope, f, s) == ~s.old \/ f \notin scope
Signers(scope, f, sigs) == {sigs[i].by : i \in {j \in 1..Len(sigs) : Counts(scope, f, sigs[j])}}
SenderOK(cfg, c) == HolderAuth(cfg, Signers(SenderScope(c), c.f, c.sigs))
\* a gasPayer field changed after signing names an account whose holders signed nothing
PayerOK(cfg, c) == c.f # "gasPayer" /\ (~Reimbursed(c) \/ HolderAuth(PayCfg(cfg, c), Signers(PayerScope, c.f, c.psigs)))
\* the box sender authorised exactly the sub-transaction that is carried (whatever its JSON form claims about itself)
BoxOK(c) == c.box \in {"none", "ok"} \/ (c.box = "old" /\ c.f \notin BoxScope)
Authorized(cfg, c) == SenderOK(cfg, c) /\ PayerOK(cfg, c) /\ BoxOK(c)
\* every signature is a valid one of a distinct holder that carries authority: what an honest wallet produces
CanonSigs(cfg, scope, f, sigs) ==
  /\ \A i \in 1..Len(sigs) : Counts(scope, f, sigs[i]) /\ (IF cfg = <<>> THEN sigs[i].by = Own ELSE sigs[i].by \in 1..Len(cfg))
  /\ \A i, j \in 1..Len(sigs) : i # j => sigs[i].by # sigs[j].by
Canonical(cfg, c) == /\ CanonSigs(cfg, SenderScope(c), c.f, c.sigs)
                     /\ (Reimbursed(c) => CanonSigs(PayCfg(cfg, c), PayerScope, c.f, c.psigs))
                     /\ (c.pay = "self" => c.psigs = <<>>)
                     /\ c.label \in (IF c.box = "none" THEN {"true"} ELSE {"true", "none"})   \* (a wallet need not send the output-only member)

(* ------------------------------------------------------------------ the node's decision procedure *)
Garbage == 998     \* a signature over other content recovers to an address nobody holds
Recovered(scope, f, sigs) == [i \in 1..Len(sigs) |-> IF Counts(scope, f, sigs[i]) THEN sigs[i].by ELSE Garbage]
CheckWeight(D, cfg, rec) ==
  /\ Len(rec) > 0
  /\ IF cfg = <<>> THEN rec[1] = Own                                   \* plain account: signers[0] == From
     ELSE IF "Dev_MultisigCountsRepeatedSigner" \in D
          THEN SumSeq([i \in 1..Len(rec) |-> Weight(cfg, rec[i])]) >= Threshold     \* weight added per signature
          ELSE SumW(cfg, Range(rec)) >= Threshold                                   \* weight added per distinct signer
WellFormed(sigs) == \A i \in 1..Len(sigs) : sigs[i].by # Junk
\* Two wrong decision procedures, used only by the negative controls of the design run (never allowed on real traces):
\*   Neg_OwnPayerUnchecked  the payer signatures are looked at only when the named payer is another account
\*   Neg_BoxTrustsLabel     the box signing hash is built from what the sub-transaction's JSON form claims its hash to be
BoxCheck(D, c) ==
  IF "Neg_BoxTrustsLabel" \notin D \/ c.box \in {"none", "bad"} THEN BoxOK(c)
  ELSE LET claimsCarried == c.label \in {"true", "none"}  claimsFormer == c.label = "kept"  same == c.f \notin BoxScope IN
       IF c.box = "ok" THEN claimsCarried \/ (claimsFormer /\ same) ELSE claimsFormer \/ (claimsCarried /\ same)
AcceptsD(D, cfg, c) ==
  /\ WellFormed(c.sigs) /\ (WellFormed(c.psigs) \/ ("Neg_OwnPayerUnchecked" \in D /\ c.pay = "own"))   \* recoverSigners fails on the first signature that does not recover
  /\ IF Len(c.psigs) >= 1 THEN \/ CheckWeight(D, PayCfg(cfg, c), Recovered(PayerScope, c.f, c.psigs))
                                \/ ("Neg_OwnPayerUnchecked" \in D /\ c.pay = "own")
                           ELSE c.pay = "self"
  /\ c.f # "gasPayer"                      \* the named payer is another (plain) account: nobody signed for it
  /\ CheckWeight(D, cfg, Recovered(SenderScope(c), c.f, c.sigs))
  /\ BoxCheck(D, c)                        \* the box signing hash is recomputed from the carried sub-transaction; c.label is not looked at
Accepts(cfg, c) == AcceptsD(Dev, cfg, c)

(* ------------------------------------------------------------------ the case space *)
NoCfg == <<>>
\* c.cfg: the sender configuration the case is meant for (the monitor judges against the really registered signers)
Case(cfg, kind, sigs, f, pay, pcfg, psigs, box, ncfg) ==
  [cfg |-> cfg, kind |-> kind, sigs |-> sigs, f |-> f, pay |-> pay, pcfg |-> pcfg, psigs |-> psigs, box |-> box, ncfg |-> ncfg, label |-> "true"]
Labelled(c, lb) == [c EXCEPT !.label = lb]
Labels == {"true", "none", "kept", "wrong"}
NoCase == Case(NoCfg, "none", <<>>, "none", "self", NoCfg, <<>>, "none", NoCfg)
Plain(cfg, kind, sigs) == Case(cfg, kind, sigs, "none", "self", NoCfg, <<>>, "none", NoCfg)
By(cfg) == {Own, Foreign} \cup 1..Len(cfg)
Sig(b, v, o) == [by |-> b, v |-> v, old |-> o]
FreshSigs(cfg) == {Sig(b, v, FALSE) : b \in By(cfg), v \in {0, 1}}
Holders(cfg) == IF cfg = <<>> THEN {Own} ELSE 1..Len(cfg)
\* increasing sequences of distinct holders (the non-empty subsets of the holders)
HolderSeqs(cfg) == {s \in SeqsUpTo(Holders(cfg), Cardinality(Holders(cfg))) : Len(s) >= 1 /\ \A i \in 1..(Len(s) - 1) : s[i] < s[i + 1]}
Full(cfg) == CHOOSE s \in HolderSeqs(cfg) : Len(s) = Cardinality(Holders(cfg))
SigsOf(hs, o) == [i \in 1..Len(hs) |-> Sig(hs[i], 0, o)]
\* 1. every sequence of at most MaxSigs signatures by holders, the own key and a foreign key, in both encodings
SigCases(cfg) == {Plain(cfg, "transfer", s) : s \in SeqsUpTo(FreshSigs(cfg), MaxSigs)}
\* 2. one field changed after some (at least one) of an honest set of signatures was made
TamperCases(cfg) ==
  UNION {{Case(cfg, "transfer", [i \in 1..Len(hs) |-> Sig(hs[i], 0, o[i])], f, "self", NoCfg, <<>>, "none", NoCfg) :
            o \in [1..Len(hs) -> BOOLEAN], f \in TamperFields} : hs \in HolderSeqs(cfg)}
\* 3. somebody else pays the gas
SenderVariants(cfg, o) == {SigsOf(Full(cfg), o), <<Sig(Foreign, 0, o)>>}
                          \cup (IF cfg = <<>> THEN {} ELSE {<<Sig(1, 0, o), Sig(1, 1, o)>>, <<Sig(1, 0, o)>>})
PayerSigs(pcfg, f) == {Sig(b, v, o) : b \in By(pcfg), v \in {0, 1}, o \in (IF f = "none" THEN {FALSE} ELSE BOOLEAN)}
\* who is named as payer: another account of every payer configuration, or the sender account itself
PayForms(cfg) == {<<"payer", pc>> : pc \in PayCfgs} \cup {<<"own", cfg>>}
PayerCases(cfg) ==
  IF cfg \notin PaySenders THEN {} ELSE
  UNION {UNION {{Case(cfg, "transfer", ss, f, p[1], p[2], ps, "none", NoCfg) :
                   ss \in SenderVariants(cfg, f # "none"), ps \in SeqsUpTo(PayerSigs(p[2], f), 2)} : p \in PayForms(cfg)} : f \in PayFields \cup {"none"}}
PayerVariants(pc) == {SigsOf(Full(pc), FALSE), <<>>, <<Sig(Foreign, 0, FALSE)>>}
                     \cup (IF pc = <<>> THEN {} ELSE {<<Sig(1, 0, FALSE), Sig(1, 1, FALSE)>>})
\* 3b. malformed signature bytes among at most two signatures
JunkCases(cfg) == {Plain(cfg, "transfer", s) : s \in SeqsUpTo(FreshSigs(cfg) \cup {Sig(Junk, 0, FALSE), Sig(Junk, 1, FALSE)}, 2)
                                                      \ SeqsUpTo(FreshSigs(cfg), 2)}
\* 4a. the box data is not what the node's encoder would have written for the box that was signed
BoxFields == (TamperFields \ {"version"}) \cup {"sigs"}
BoxForgeCases(cfg) ==
  \* the sub-transaction changed after ("old") / before ("ok") the box sender signed; re-signed by all its holders (a validly signed
  \* substitute) or not; labelled with its real hash, no hash, the hash of the sub-transaction it replaces, an arbitrary hash
  {Labelled(Case(cfg, "transfer", SigsOf(Full(cfg), o), f, "self", NoCfg, <<>>, b, NoCfg), lb) :
     o \in BOOLEAN, f \in BoxFields, b \in {"old", "ok"}, lb \in Labels} \cup
  \* unchanged sub-transaction (properly signed / signed by a foreign key), forged label, box signed by its sender / a foreign key
  {Labelled(Case(cfg, "transfer", s, "none", "self", NoCfg, <<>>, b, NoCfg), lb) :
     s \in {SigsOf(Full(cfg), FALSE), <<Sig(Foreign, 0, FALSE)>>}, b \in {"ok", "bad"}, lb \in {"none", "wrong"}} \cup
  \* reimbursed sub-transaction whose payer changed the gas terms (and re-signed, or not) after the box sender signed
  UNION {{Labelled(Case(cfg, "transfer", SigsOf(Full(cfg), TRUE), f, p[1], p[2], SigsOf(Full(p[2]), o), "old", NoCfg), lb) :
            o \in BOOLEAN, f \in BoxFields \cap GasTerms, lb \in Labels} : p \in PayForms(cfg)}
\* 4. inside a box (also: a reimbursed transaction inside a box)
BoxCases(cfg) ==
  IF cfg \notin BoxCfgs THEN {} ELSE
  {Case(cfg, "transfer", s, "none", "self", NoCfg, <<>>, b, NoCfg) : s \in SeqsUpTo(FreshSigs(cfg), 2), b \in {"ok", "bad"}} \cup
  {Case(cfg, "transfer", SigsOf(Full(cfg), TRUE), f, "self", NoCfg, <<>>, "ok", NoCfg) : f \in TamperFields \ {"version"}} \cup   \* (a box with a sub-transaction of another version does not parse)
  UNION {{Case(cfg, "transfer", ss, "none", p[1], p[2], ps, "ok", NoCfg) : ss \in SenderVariants(cfg, FALSE), ps \in PayerVariants(p[2])} : p \in PayForms(cfg)} \cup
  BoxForgeCases(cfg)
\* 5. other kinds of transaction
KindCases(cfg) ==
  {Plain(cfg, k, s) : k \in Kinds, s \in SeqsUpTo(FreshSigs(cfg), 2)} \cup
  {Case(cfg, k, SigsOf(Full(cfg), TRUE), f, "self", NoCfg, <<>>, "none", NoCfg) : k \in Kinds \cap {"vote"}, f \in TamperFields \cap {"to", "data", "type", "amount"}} \cup
  \* the account reimburses itself: honest / gas terms changed after every signature was made
  {Case(cfg, k, SigsOf(Full(cfg), f # "none"), f, "own", cfg, SigsOf(Full(cfg), f # "none"), "none", NoCfg) : k \in Kinds, f \in {"none"} \cup (TamperFields \cap GasTerms)}
\* 6. the account's signers are replaced (the decision is taken against the signers registered BEFORE the transaction)
ReconfCases(cfg) ==
  IF cfg \notin ReconfCfgs THEN {} ELSE
  {Case(cfg, "signers", s, "none", "self", NoCfg, <<>>, "none", n) : n \in NewCfgs \ {cfg}, s \in SeqsUpTo(FreshSigs(cfg), 2)} \cup
  {Case(cfg, "signers", SigsOf(Full(cfg), TRUE), "data", "self", NoCfg, <<>>, "none", n) : n \in NewCfgs \ {cfg}}
Cases(cfg) == (IF "sigs" \in Slices THEN SigCases(cfg) ELSE {}) \cup
              (IF "tamper" \in Slices THEN {c \in TamperCases(cfg) : \E i \in 1..Len(c.sigs) : c.sigs[i].old} ELSE {}) \cup
              (IF "payer" \in Slices THEN PayerCases(cfg) ELSE {}) \cup
              (IF "junk" \in Slices THEN JunkCases(cfg) ELSE {}) \cup
              (IF "box" \in Slices THEN BoxCases(cfg) ELSE {}) \cup
              (IF "kinds" \in Slices THEN KindCases(cfg) ELSE {}) \cup
              (IF "reconf" \in Slices THEN ReconfCases(cfg) ELSE {})

AllCases == UNION {Cases(k) : k \in Configs}          \* constant: evaluated once
ASSUME NewCfgs \subseteq Configs

(* ------------------------------------------------------------------ the system *)
VARIABLES cfg,    \* registered signers of the sender account
          phase,  \* 0: idle | 1: a transaction was handed to the miner and its block is on its way to another node
          cur,    \* the last case handed to the miner (history)
          acc     \* the miner packaged it (history)
vars == <<cfg, phase, cur, acc>>
View == <<cfg, phase>>                    \* cur / acc only record the last step: nothing later depends on them
Init == cfg \in Configs /\ phase = 0 /\ cur = NoCase /\ acc = FALSE
\* the transaction is handed to a mining node; a packaged re-configuration replaces the account's signers
Offer(c) == /\ phase = 0 /\ c.cfg = cfg
            /\ phase' = 1 /\ cur' = c /\ acc' = Accepts(cfg, c)
            /\ cfg' = IF Accepts(cfg, c) /\ c.kind = "signers" THEN c.ncfg ELSE cfg
\* the block with it (the miner's, or one forged by a dishonest deputy if the miner refused) reaches another node
Validate == phase = 1 /\ phase' = 0 /\ UNCHANGED <<cfg, cur, acc>>
Next == \/ \E c \in AllCases : Offer(c)
        \/ Validate
Spec == Init /\ [][Next]_vars

(* ------------------------------------------------------------------ clauses
   Each clause is a predicate on (signers registered BEFORE the step, the case, the miner's decision); it is checked
   as an action property on every Offer step, i.e. on every enumerated case. *)
\* only authorised transactions have an effect
CEffectOnlyIfAuthorized(k, c, a) == a => Authorized(k, c)
\* ... and the honest ones do (the check is not vacuous)
CCanonicalAccepted(k, c, a) == Canonical(k, c) /\ Authorized(k, c) => a
\* keep only the first signature of every signer
RECURSIVE Dedup(_, _)
Dedup(sigs, seen) == IF sigs = <<>> THEN <<>>
                     ELSE IF Head(sigs).by \in seen THEN Dedup(Tail(sigs), seen)
                     ELSE <<Head(sigs)>> \o Dedup(Tail(sigs), seen \cup {Head(sigs).by})
Without(s, i) == [j \in 1..(Len(s) - 1) |-> IF j < i THEN s[j] ELSE s[j + 1]]
RECURSIVE ValidOnly(_, _, _)
ValidOnly(scope, f, sigs) == IF sigs = <<>> THEN <<>>
                             ELSE (IF Counts(scope, f, Head(sigs)) THEN <<Head(sigs)>> ELSE <<>>) \o ValidOnly(scope, f, Tail(sigs))
\* repeating a signer (same bytes or re-encoded) never turns a refused transaction into an accepted one
CRepeatNeverHelps(k, c, a) ==
  a => Accepts(k, [c EXCEPT !.sigs = Dedup(ValidOnly(SenderScope(c), c.f, c.sigs), {}),
                            !.psigs = Dedup(ValidOnly(PayerScope, c.f, c.psigs), {}),
                            !.f = "none"])
\* no acceptance rests on a foreign key
NotForeign(s) == s.by # Foreign
CForeignNeverHelps(k, c, a) ==
  a => Accepts(k, [c EXCEPT !.sigs = SelectSeq(c.sigs, NotForeign), !.psigs = SelectSeq(c.psigs, NotForeign)])
\* removing a (well-formed) signature from a multi-signature transaction that is refused never makes it accepted
CRemovalNeverHelps(k, c, a) ==
  ~a /\ k # <<>> => \A i \in 1..Len(c.sigs) : c.sigs[i].by # Junk => ~Accepts(k, [c EXCEPT !.sigs = Without(c.sigs, i)])
\* the encoding of a signature is irrelevant for authorisation
CEncodingIrrelevant(k, c, a) ==
  Authorized(k, c) <=> Authorized(k, [c EXCEPT !.sigs = [i \in 1..Len(c.sigs) |-> [c.sigs[i] EXCEPT !.v = 0]],
                                               !.psigs = [i \in 1..Len(c.psigs) |-> [c.psigs[i] EXCEPT !.v = 0]]])
\* a field changed after ALL sender signatures were made, within what they cover, makes the transaction ineffective
CTamperFalsifies(k, c, a) ==
  c.f \in SenderScope(c) /\ (\A i \in 1..Len(c.sigs) : c.sigs[i].old) => ~a
\* gas terms (or sender signatures) changed after ALL payer signatures were made: ineffective; no payer signature: ineffective
CPayerBinds(k, c, a) ==
  Reimbursed(c) /\ (c.psigs = <<>> \/ (c.f \in PayerScope /\ \A i \in 1..Len(c.psigs) : c.psigs[i].old)) => ~a
\* whoever pays: a changed field has an effect only under a signature made AFTER the change that covers it (no field is left
\* to nobody - in particular the gas terms of a reimbursed transaction, also when the sender reimburses itself)
CChangeCovered(k, c, a) ==
  a /\ c.f \in Fields => \/ c.f \in SenderScope(c) /\ \E i \in 1..Len(c.sigs) : ~c.sigs[i].old
                         \/ c.f \in PayerScope /\ Reimbursed(c) /\ \E i \in 1..Len(c.psigs) : ~c.psigs[i].old
\* a sub-transaction changed (or its signatures replaced) after the box sender signed makes the box ineffective
CBoxBinds(k, c, a) == c.box = "old" /\ c.f \in BoxScope => ~a
\* what the JSON form of a sub-transaction claims its hash to be is not content: it neither grants nor removes authority
CLabelIrrelevant(k, c, a) == /\ Authorized(k, c) <=> Authorized(k, Labelled(c, "true"))
                             /\ a <=> Accepts(k, Labelled(c, "true"))
\* the threshold is exact
CThresholdExact(k, c, a) ==
  k # <<>> /\ c.f = "none" /\ c.pay = "self" /\ c.box = "none" /\ WellFormed(c.sigs) =>
    (a <=> SumW(k, Range([i \in 1..Len(c.sigs) |-> c.sigs[i].by])) >= Threshold)
\* a re-configuration takes effect exactly when it is packaged
CReconf(k, c, a) == cfg' = IF a /\ c.kind = "signers" THEN c.ncfg ELSE k
OnOffer(P(_, _, _)) == phase' = 1 => P(cfg, cur', acc')
EffectOnlyIfAuthorized == [][OnOffer(CEffectOnlyIfAuthorized)]_vars
CanonicalAccepted == [][OnOffer(CCanonicalAccepted)]_vars
RepeatNeverHelps == [][OnOffer(CRepeatNeverHelps)]_vars
ForeignNeverHelps == [][OnOffer(CForeignNeverHelps)]_vars
RemovalNeverHelps == [][OnOffer(CRemovalNeverHelps)]_vars
EncodingIrrelevant == [][OnOffer(CEncodingIrrelevant)]_vars
TamperFalsifies == [][OnOffer(CTamperFalsifies)]_vars
PayerBinds == [][OnOffer(CPayerBinds)]_vars
ThresholdExact == [][OnOffer(CThresholdExact)]_vars
Reconf == [][OnOffer(CReconf)]_vars
ChangeCovered == [][OnOffer(CChangeCovered)]_vars
BoxBinds == [][OnOffer(CBoxBinds)]_vars
LabelIrrelevant == [][OnOffer(CLabelIrrelevant)]_vars
====
