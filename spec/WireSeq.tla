---- MODULE WireSeq ----
(* C15, the message-SEQUENCE layer: "blocks, confirmations and transactions that decode successfully but are
   semantically absurd", delivered in any order.  Above the byte / frame / single-message classes of WireClasses a
   remote party can send any sequence of well-framed, decodable messages; what such sequences act on is the
   OUT-OF-ORDER STATE the protocol manager keeps between messages:

     bc      the block cache: blocks received whose parent the chain does not have (yet),
     cc      the confirm cache: confirm packets received for blocks the chain does not have (yet),
     known   the blocks the chain has,  stable  the height of the stable block,

   and the manager's own queue timer (Tick, every 500 ms), which hands every cached block whose parent has arrived
   meanwhile to the chain.  A block is abstracted to a descriptor

     <<id, height, parent, kind>>     height: -1 stands for 2^32-1;  parent: "G" genesis, "U" a hash nobody has, or the id
                                      of another block;  kind: "v" a block the chain accepts once its parent is there
                                      (mined in the right slot, signed by the remote deputy whose turn it is), "j" junk
                                      (anything else: it decodes, and fails verification if it ever gets that far).

   This module holds the pure operators shared by the design model (Wire.tla: how the manager is MEANT to treat such
   sequences; generator of the sequences that are replayed on the real node) and by the judge of real traces
   (TraceWire.tla: the envelope every real step must stay in).  *)
EXTENDS Integers, Sequences, FiniteSets

MaxH == 2147483647
BId(d) == d[1]
BH(d) == IF d[2] < 0 THEN MaxH ELSE d[2]
BP(d) == d[3]
BValid(d) == d[4] = "v"

\* a cached confirm is a pair <<block descriptor, signer>>; the height it is filed under is the packet's height FIELD,
\* which the sender chooses ("d2max", "d2zero": a deputy's signature with an absurd height field)
CH(c) == CASE c[2] = "d2max" -> MaxH [] c[2] = "d2zero" -> 0 [] OTHER -> BH(c[1])

PmInit == [known |-> {"G"}, stable |-> 0, bc |-> {}, cc |-> {}]

\* ------------------------------------------------------------------ the design: what the manager is meant to do

\* The chain accepts block d.  In the 3-deputy world of the harness a valid block carries its miner's signature and the
\* node adds its own: 2 of 3, so the block is stable at once and both caches are cleared up to its height; the
\* confirms waiting for d are merged into it.
Accept(pm, d) ==
  LET st == IF BH(d) > pm.stable THEN BH(d) ELSE pm.stable IN
  [known |-> pm.known \cup {BId(d)}, stable |-> st,
   bc |-> {c \in pm.bc : BH(c) > st},
   cc |-> {c \in pm.cc : CH(c) > st /\ ~(BId(c[1]) = BId(d) /\ CH(c) = BH(d))}]

\* One BlocksMsg: the blocks are taken in order; stale ones are skipped; a block whose parent the chain has goes to the
\* chain (and, if the chain rejects it, the rest of the message is ignored); a block of height <= 1 on an unknown parent
\* is "a different genesis": the peer is dropped; everything else waits in the cache.
RECURSIVE Deliver(_, _, _)
Deliver(pm, ds, i) ==
  IF i > Len(ds) THEN [pm |-> pm, drop |-> FALSE]
  ELSE LET d == ds[i] IN
       IF BH(d) <= pm.stable \/ BId(d) \in pm.known THEN Deliver(pm, ds, i + 1)
       ELSE IF BP(d) \in pm.known
            THEN IF BValid(d) THEN Deliver(Accept(pm, d), ds, i + 1) ELSE [pm |-> pm, drop |-> FALSE]
            ELSE IF BH(d) <= 1 THEN [pm |-> pm, drop |-> TRUE]
                 ELSE Deliver([pm EXCEPT !.bc = @ \cup {d}], ds, i + 1)

\* One ConfirmMsg: for a block the chain has it goes to the chain, otherwise it waits in the confirm cache.
Confirm(pm, d, s) == IF BId(d) \in pm.known THEN pm ELSE [pm EXCEPT !.cc = @ \cup {<<d, s>>}]

\* The queue timer: every cached block whose parent the chain has (at the START of the pass: the hand-over is
\* asynchronous) leaves the cache; the valid ones among them are accepted.
Ready(pm) == {d \in pm.bc : BP(d) \in pm.known}
RECURSIVE AcceptAll(_, _)
AcceptAll(pm, S) ==
  IF S = {} THEN pm
  ELSE LET d == CHOOSE x \in S : \A y \in S : BH(x) <= BH(y) IN AcceptAll(Accept(pm, d), S \ {d})
TickPm(pm) == AcceptAll([pm EXCEPT !.bc = @ \ Ready(pm)], {d \in Ready(pm) : BValid(d)})
\* the height slots of the cache that one pass empties completely
Slots(pm) == {BH(d) : d \in pm.bc}
EmptiedSlots(pm) == {h \in Slots(pm) : \A d \in pm.bc : BH(d) = h => d \in Ready(pm)}

\* ------------------------------------------------------------------ the envelope (what the property demands of ANY step)
\* "The node must not grow state out of proportion": between two quiescence points the caches may only take up what the
\* input of that step delivered, and only blocks that can wait at all (above the stable height, not on the chain, parent
\* not on the chain, not a "different genesis" block).  kn / st are what the chain had at the PREVIOUS quiescence point
\* (the chain only grows, so this is a lower bound of what it has during the step: the envelope is an upper bound);
\* everything else - what the timer has already taken out, whether the peer was dropped half-way - may only shrink it.
CanWait(d, kn, st) == BH(d) > 1 /\ BH(d) > st /\ BId(d) \notin kn /\ BP(d) \notin kn
\* ids: blocks of the universe now in the real cache ("?" = a block that is not of the universe, counted only);
\* prev: ids cached at the previous quiescence point; ds: the blocks sent in this step (sequence of descriptors)
IdsEnvelope(ids, prev, ds, kn, st) ==
  (ids \ {"?"}) \subseteq (prev \cup {BId(ds[i]) : i \in {j \in 1..Len(ds) : CanWait(ds[j], kn, st)}})
\* counts: nb/nc blocks/confirms cached now, pb/pc at the previous quiescence point, sb/sc blocks/confirm packets sent in the step
CountEnvelope(nb, nc, pb, pc, sb, sc) == nb >= 0 /\ nc >= 0 /\ nb <= pb + sb /\ nc <= pc + sc
====
