SPECIFICATION Spec
CONSTANTS NC = 5
 K = 3
 MaxVotes = 2
 MaxLive = 4
 MaxSteps = 0
 RestartAnywhere = TRUE
 Touch = {0, 1, 2, 3, 4, 5}
 VMaps = {0, 1, 2, 3, 4, 5, 6}
 Persist = TRUE
 MaxChg = 5
 Dev = {}
INVARIANTS TypeOK TopIsFullSort FileOK
PROPERTIES RestartKeepsTop
CHECK_DEADLOCK FALSE
