SPECIFICATION Spec
CONSTANTS Plain <- McPlain
 Box <- McBox
 Subs <- McSubs
 Exp <- McExp
 Times <- McTimes
 MaxSteps = 5
 Cap0 = 2
 FixDelBox = FALSE
VIEW View
INVARIANTS NoDupOut NoExpiredOut NoDeletedOut BoxExclusive NoLoss IndexSound IndexComplete SlotsDistinct CapOK
CHECK_DEADLOCK FALSE
