SPECIFICATION Spec
CONSTANTS Times <- McTimesW
 ExpChoices <- McExp
 OfferMenu <- McMenuW
 MaxBlocks = 4
 MaxBoots = 1
 DupCheck = TRUE
 PayloadIdentity = TRUE
INVARIANTS AtMostOnce InWindow ForkFree
CHECK_DEADLOCK FALSE
