SPECIFICATION Spec
CONSTANTS Times <- McTimesW
 ExpChoices <- McExp
 OfferMenu <- McMenuW
 MaxBlocks = 4
 MaxBoots = 1
 DupCheck = TRUE
 PayloadIdentity = TRUE
 Encs = {"c"}
 CarrierIdentity = FALSE
INVARIANTS AtMostOnce InWindow ForkFree CarrierFree
CHECK_DEADLOCK FALSE
