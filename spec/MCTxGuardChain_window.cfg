SPECIFICATION Spec
CONSTANTS Times <- McTimesW
 ExpChoices <- McExp
 OfferMenu <- McMenuW
 MaxBlocks = 4
 DupCheck = TRUE
 PayloadIdentity = TRUE
INVARIANTS AtMostOnce InWindow ForkFree
CHECK_DEADLOCK FALSE
