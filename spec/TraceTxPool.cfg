SPECIFICATION TraceSpec
CONSTRAINT HW
INVARIANT PendExclusive
POSTCONDITION Accepted
CHECK_DEADLOCK FALSE
