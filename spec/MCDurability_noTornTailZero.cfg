SPECIFICATION Spec
CONSTANTS NB = 2
 MaxCrash = 2
 RepairTornTail = FALSE
 RepairAtomicContext = TRUE
 MaxEdge = 0
 ScanStride = "align"
 CaskAdvance = "align"
 RepairScanPromotes = TRUE
INVARIANTS AccountsExact
CHECK_DEADLOCK FALSE
