SPECIFICATION TraceSpec
CONSTRAINT HW
INVARIANT AgreementInv
POSTCONDITION Accepted
CHECK_DEADLOCK FALSE
