SPECIFICATION Spec
CONSTANTS Ctx <- McCtx
 Init0 <- McInit
 Gas <- McGas
 Devs = {}
 Kinds = {"issue", "repl", "axfer", "freeze", "unfreeze"}
 From = {}
 XTo = {}
 XAmt = {}
 Payers = {}
 Voters = {}
 Cands = {}
 RegAmt = {}
 AFrom = {"a1", "a4"}
 ATo = {"a1", "a2", "a3", "Z"}
 AAmt <- McAAmtT
 IAmt <- McIAmt
 ACodes = {"T"}
 AIds = {"T"}
 BGL = {}
 BoxFrom = {}
 BoxTo = {}
 BoxSeqs = {}
 SpendFrom = {}
 RewFrom = {}
 RewTerms = {}
 RewAmt = {}
 EmptyOK = FALSE
 MaxTx = 3
 MaxBlk = 2
 MaxTot = 3
VIEW View
INVARIANTS NonNegative Conservation DepositsBacked VotesAtBoundary SupplyEqualsEquity NothingForbiddenIncluded
PROPERTIES EndOfBlockIssuesTheReward GasWithinLimit NotIncludedIsFree OnlyOwnEquityDecreases SupplyChangesOnlyByIssuerOrHolder FrozenDoesNotMove
CHECK_DEADLOCK FALSE
