SPECIFICATION Spec
CONSTANTS MaxCands = 3
 MaxBlocks = 2
INVARIANT Deterministic
CHECK_DEADLOCK FALSE
