SPECIFICATION Spec
CONSTANTS Blocks <- McNoBlocks
 MaxH = 3
 Confirms <- McConfirms
 Ops <- McOpsC
 MaxSteps = 0
 History = FALSE
 BugAddMiddle = FALSE
INVARIANTS TypeOK Refines CacheSorted SizeOK FirstOK IterateAscending KeysOK
CHECK_DEADLOCK FALSE
