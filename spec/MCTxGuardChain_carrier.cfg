SPECIFICATION Spec
CONSTANTS Times <- McTimesC
 ExpChoices <- McExp
 OfferMenu <- McMenuCT
 MaxBlocks = 3
 MaxBoots = 1
 DupCheck = TRUE
 PayloadIdentity = TRUE
 Encs = {"c", "h", "k", "g", "x"}
 CarrierIdentity = FALSE
INVARIANTS AtMostOnce InWindow ForkFree CarrierFree
CHECK_DEADLOCK FALSE
