SPECIFICATION Spec
CONSTANTS Addrs <- McAddrs
 InitStable <- McInitStable
 AddrN = 2
 Mixed = TRUE
 MaxBlocks = 3
 MaxWrites = 2
 MaxStable = 2
 MaxRestart = 0
 MaxReads = 1
 LeafOnly = TRUE
 MaxSlots = 1
 CanonSlots = TRUE
 Kinds = {"txroot"}
 IdentByHash = TRUE
INVARIANTS TypeOK ViewIsNearestWrite ForksIsolated PersistEqualsStableView
PROPERTIES PruneExact WriteLocal ReadPure AttrInert
CHECK_DEADLOCK FALSE
