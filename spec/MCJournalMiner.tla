---- MODULE MCJournalMiner ----
(* Model-checking configurations of JournalMiner.tla.  The gas table is what harness/adapters/journal/miner.go
   calibrates on the real processor (`vh drive journalminer-gas`); the trace specification uses the table the harness
   logs, this copy only aims the generator: the block gas limits are chosen so that boxes run out of block gas before
   their first (50000), in front of their second (70000, 100000 after one packaged transfer) sub-transaction, or not
   at all. *)
EXTENDS JournalMiner
McGas == [pay |-> 21204, pay2 |-> 21272, pay3 |-> 21272, give |-> 21287, asset |-> 77812, badsig |-> 21408, poor |-> 21272, over |-> 21272,
          bp1 |-> 21204, bp2 |-> 21204, bb1 |-> 21204, bo1 |-> 21204, xover |-> 21340, xasset |-> 77880, xstore |-> 41498,
          xissue |-> 63432, xfreeze |-> 43364, xbad1 |-> 21340, xbad2 |-> 21340, xbad3 |-> 21340, xbad4 |-> 21340, xbad5 |-> 21340,
          boxpay |-> 40408, boxbad |-> 40408, boxover |-> 40476, boxasset |-> 40544, boxstore |-> 40544, boxissue |-> 40544,
          boxfreeze |-> 40612]
McLimits == {50000, 70000, 100000, 130000, 100000000}
\* lists of three (thorough tier): without the candidates that are refused before anything is written
Offered3 == Classes \ {"badsig", "poor", "asset"}
NoDev == {}
\* negative control: the miner that keeps what a box wrote when the block ran full
McNeg == {"Dev_NoRevertWhenBlockFull"}
OfferedNeg == {"pay", "boxpay", "boxbad"}
====
