SPECIFICATION Spec
CONSTANTS Times <- McTimesC
 ExpChoices <- McExp
 OfferMenu <- McMenuOq
 MaxBlocks = 3
 MaxBoots = 0
 DupCheck = TRUE
 PayloadIdentity = TRUE
 Encs = {"c", "p", "q", "o", "r", "v"}
 CarrierIdentity = FALSE
INVARIANTS AtMostOnce InWindow ForkFree CarrierFree
CHECK_DEADLOCK FALSE
