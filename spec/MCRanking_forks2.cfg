SPECIFICATION Spec
CONSTANTS NC = 2
 K = 1
 MaxVotes = 2
 MaxLive = 3
 MaxSteps = 0
 RestartAnywhere = FALSE
 Touch = {0}
 VMaps = {100}
 Persist = FALSE
 MaxChg = 2
 Dev = {}
INVARIANTS TypeOK TopIsFullSort FileOK
PROPERTIES RestartKeepsTop
CHECK_DEADLOCK FALSE
