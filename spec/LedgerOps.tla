---- MODULE LedgerOps ----
(* The ledger semantics that C05 / C11 / C12 demand, as pure operators (no constants, no variables) so that the
   design model (Ledger.tla, model-checked) and the property monitor (TraceLedger.tla, fed with what the REAL
   processor logged) evaluate the very same definitions.

   c  - context record: V (vote rate), D (deposit rate), mindep, income, pool, zero, issuer,
        rev / sink / burn / back (contract accounts by behaviour);
        terms: deps (sequence: term index + 1 -> the accounts whose node id is a deputy of that term),
        payees (sequence: term index + 1 -> sequence of [a: income account, v: votes] of that term's nodes),
        prec (reward precision), rm (reward manager), rc (reward precompile account), rpool (reward pool total)
   dv - set of deviation keys switched on (known defects of the implementation, see Ledger.tla)
   s  - ledger state: bal, votes, vf (voteFor), reg ("no" | "yes" | "was"), dep, code;
        issued assets: sup / frz (asset code -> recorded total supply / frozen), eq (asset id -> holder -> equity),
        idc (asset id -> the asset code it belongs to, NONE while the id has not been issued);
        h (height of the block this is the end state of), T / I (term / interim duration in blocks),
        rwd / rwt (sequences, term index + 1 -> term reward set through the precompile / how often it was set),
        idx (the accounts in the node's candidate index: candidates as of the last STABLE block - the reward block
        enumerates the refunds from it), stab (every block of the scenario becomes stable when it is committed)
   b  - block accumulator: s, h (height of the block), start (balances at block start), fees (collected, credited at
        Finalize), rew (LEMO legitimately issued), burn (LEMO legitimately destroyed), bad (an included asset
        transaction that C12 forbids: wrong sender, non-positive issue, negative / oversized / frozen transfer)
   t  - transaction record: k, f, t, p (gas payer), amt, gl, gp, gu (gas used), inc (packaged), subs,
        x (kind specific: the term of a reward setting), c / id (asset code / asset id an asset transaction names)

   Issued assets (c.assets: asset code -> [cat, div, repl, iss]).  The code distinguishes three categories: 1 = token
   (one asset id, equal to the code; always divisible), 2 = non-fungible (indivisible, never replenished), 3 = common
   (any flags); in categories 2 and 3 every IssueAsset transaction creates a NEW asset id (the hash of that
   transaction) under the code, so one code has several ids, each with its own holders and metadata.  Freeze and the
   recorded total supply belong to the CODE.  An indivisible id moves as a whole and counts 1 in the supply.        *)
EXTENDS Integers, Sequences, FiniteSets, Functions

NONE == "none"
W(c, x) == x \div c.V

\* sums over functions (Functions!FoldFunction*: evaluated by TLC's Java override)
SumOver(f, S) == FoldFunctionOnSet(LAMBDA x, y : x + y, 0, f, S)
Total(f) == FoldFunction(LAMBDA x, y : x + y, 0, f)

RECURSIVE SumGas(_, _)
SumGas(q, i) == IF i > Len(q) THEN 0 ELSE q[i].gu + SumGas(q, i + 1)

(* ---------------------------------------------------------------- heights and terms (deputynode/term_record.go) *)
\* Term k is elected by snapshot block k*T; its deputies sign from block k*T + I + 1 (the REWARD block of term k - 1:
\* first block of a term, pays the finished term and the deferred deposit refunds) to (k+1)*T + I; blocks
\* k*T .. k*T + I (k >= 1) are the interim period.
SignerTerm(s, h) == IF h < s.T + s.I + 1 THEN 0 ELSE (h - s.I - 1) \div s.T
IsReward(s, h)   == h >= s.T + s.I + 1 /\ h % s.T = s.I + 1
IsInterim(s, h)  == h % s.T <= s.I /\ h > s.I
IsSnapshot(s, h) == h % s.T = 0
DeputiesAt(c, s, h) == LET k == SignerTerm(s, h) + 1 IN IF k <= Len(c.deps) THEN c.deps[k] ELSE {}

RECURSIVE SumSeq(_, _)
SumSeq(q, i) == IF i > Len(q) THEN 0 ELSE q[i] + SumSeq(q, i + 1)

Fee(t) == t.gu * t.gp
Charge(b, a, n) == [b EXCEPT !.s.bal[a] = @ - n, !.fees = @ + n]
Move(b, f, t, n) == [b EXCEPT !.s.bal[f] = @ - n, !.s.bal[t] = @ + n]
Bad(b) == [b EXCEPT !.bad = TRUE]

(* ---------------------------------------------------------------- LEMO transfers and contract value flows *)
\* A contract behaves as such only while it has code (s.code); SELFDESTRUCT removes the code at once.  What a contract
\* holds of an issued asset is NOT touched by its self-destruction (nobody but the holder moves or destroys equity).
\* Mut_SuicideClearsEquity (not a known defect: negative control of the design runs) wipes it.
Wipe(dv, b, k) == IF "Mut_SuicideClearsEquity" \in dv
                  THEN LET e == b.s.eq IN [b EXCEPT !.s.eq = [i \in DOMAIN e |-> [e[i] EXCEPT ![k] = 0]]] ELSE b
\* the code of contract k runs, called by `by` (after the value, if any, has arrived)
RunCode(c, dv, b, k, by) ==
  IF ~b.s.code[k] THEN b
  ELSE IF k \in c.burn THEN Wipe(dv, [b EXCEPT !.burn = @ + b.s.bal[k], !.s.bal[k] = 0, !.s.code[k] = FALSE], k)   \* SELFDESTRUCT(self): explicit burn
  ELSE IF k \in c.back THEN LET had == b.s.bal[k] IN                                    \* SELFDESTRUCT(caller): all of it goes to the caller
                            Wipe(dv, [b EXCEPT !.s.bal[k] = 0, !.s.bal[by] = @ + had, !.s.code[k] = FALSE], k)
  ELSE b
OpXfer(c, dv, b, t) ==
  LET b1 == Charge(b, t.p, Fee(t))  alive == b.s.code[t.t] IN
  IF t.t \in c.rev /\ alive THEN b1                                          \* call fails: the amount does not move
  ELSE RunCode(c, dv, Move(b1, t.f, t.t, t.amt), t.t, t.f)

(* ---------------------------------------------------------------- votes *)
\* A vote moves the voter's weight from its previous (still registered) candidate to the new one.  The weight that
\* is consistent with the end-of-block adjustment is the balance at the START of the block; the implementation uses
\* the balance just before this transaction (Dev_VoteUsesPreTxBalance).
OpVote(c, dv, b, t) ==
  LET w   == W(c, IF "Dev_VoteUsesPreTxBalance" \in dv THEN b.s.bal[t.f] ELSE b.start[t.f])
      old == b.s.vf[t.f]
      b1  == IF w > 0 /\ old # NONE /\ b.s.reg[old] = "yes" THEN [b EXCEPT !.s.votes[old] = @ - w] ELSE b
      b2  == IF w > 0 THEN [b1 EXCEPT !.s.votes[t.t] = @ + w] ELSE b1
  IN Charge([b2 EXCEPT !.s.vf[t.f] = t.t], t.p, Fee(t))

\* RegisterTx with isCandidate = true: first registration (deposit >= mindep) or top-up, by the sender's state
OpReg(c, b, t) ==
  LET b1 == Charge(b, t.p, Fee(t)) IN
  CASE b.s.reg[t.f] = "no"  -> [Move(b1, t.f, c.pool, t.amt) EXCEPT !.s.reg[t.f] = "yes", !.s.dep[t.f] = t.amt,
                                                                   !.s.votes[t.f] = t.amt \div c.D]
    [] b.s.reg[t.f] = "yes" -> LET d0 == b.s.dep[t.f] IN
                               [Move(b1, t.f, c.pool, t.amt) EXCEPT !.s.dep[t.f] = d0 + t.amt,
                                                                   !.s.votes[t.f] = @ + ((d0 + t.amt) \div c.D - d0 \div c.D)]
    [] OTHER                -> b1                                             \* never again after unregistering
\* RegisterTx with isCandidate = false: votes drop to zero; the deposit comes back from the pool at once, unless the
\* block lies in the interim period or the account is a deputy of the term that signs this block - then the deposit
\* stays recorded and is refunded by the next reward block in which the account is not a deputy (Finalize)
OpUnreg(c, b, t) ==
  LET b1 == Charge(b, t.p, Fee(t))  d0 == b.s.dep[t.f]
      deferred == IsInterim(b.s, b.h) \/ t.f \in DeputiesAt(c, b.s, b.h) IN
  IF b.s.reg[t.f] # "yes" THEN b1
  ELSE IF deferred THEN [b1 EXCEPT !.s.reg[t.f] = "was", !.s.votes[t.f] = 0]
  ELSE [Move(b1, c.pool, t.f, d0) EXCEPT !.s.reg[t.f] = "was", !.s.votes[t.f] = 0, !.s.dep[t.f] = 0]

\* The reward precompile (vm/contracts.go setRewardValue), called by an ordinary transaction that carries no LEMO:
\* only the reward manager, a value below the pool total, a term whose reward block is not yet behind (the reward
\* block itself still counts), at most two settings per term, all terms together within the pool.  A refused call
\* costs its gas and sets nothing.
OpSetRew(c, b, t) ==
  LET b1 == Charge(b, t.p, Fee(t))  k == t.x + 1
      ok == /\ t.f = c.rm /\ k >= 1 /\ k <= Len(b.s.rwd) /\ t.amt >= 0 /\ t.amt < c.rpool
            /\ (t.x + 1) * b.s.T + b.s.I + 1 >= b.h
            /\ b.s.rwt[k] < 2
            /\ SumSeq([b.s.rwd EXCEPT ![k] = t.amt], 1) <= c.rpool
  IN IF ok THEN [b1 EXCEPT !.s.rwd[k] = t.amt, !.s.rwt[k] = @ + 1] ELSE b1

(* ---------------------------------------------------------------- issued assets *)
KnownCode(c, x) == x \in DOMAIN c.assets
Frozen(dv, s, code, id) ==   \* the freeze flag belongs to the asset CODE (Mut_FreezeLookupById: negative control of the design runs)
  IF "Mut_FreezeLookupById" \in dv THEN id \in DOMAIN s.frz /\ s.frz[id] ELSE s.frz[code]
\* issue: only the issuer, only a positive amount, not while frozen; a token is credited under its one id (= the code),
\* in the other categories the transaction creates a new id that belongs to the receiver
OpIssue(c, dv, b, t) ==
  LET b1 == Charge(b, t.p, Fee(t))
      as == c.assets[t.c]
      ok == /\ KnownCode(c, t.c) /\ t.f = as.iss /\ t.amt > 0 /\ ~b.s.frz[t.c] /\ t.id \in DOMAIN b.s.eq
            /\ IF as.cat = 1 THEN t.id = t.c ELSE b.s.idc[t.id] = NONE
  IN IF ~ok THEN Bad(b1)
     ELSE [b1 EXCEPT !.s.sup[t.c] = @ + (IF as.div THEN t.amt ELSE 1), !.s.eq[t.id][t.t] = @ + t.amt, !.s.idc[t.id] = t.c]
\* replenish: only the issuer, only a positive amount, only a divisible asset flagged replenishable, not while frozen,
\* under an id of that code (an id nobody holds yet becomes one of the code's ids)
OpRepl(c, dv, b, t) ==
  LET b1 == Charge(b, t.p, Fee(t))
      as == c.assets[t.c]
      ok == /\ KnownCode(c, t.c) /\ t.f = as.iss /\ t.amt > 0 /\ ~b.s.frz[t.c] /\ as.div /\ as.repl
            /\ t.id \in DOMAIN b.s.eq /\ b.s.idc[t.id] \in {t.c, NONE}
  IN IF ~ok THEN Bad(b1)
     ELSE [b1 EXCEPT !.s.sup[t.c] = @ + t.amt, !.s.eq[t.id][t.t] = @ + t.amt, !.s.idc[t.id] = t.c]
\* transfer: out of the sender's own equity under that id only, a non-negative amount it owns, not while the id's code is
\* frozen; an indivisible id moves as a whole whatever amount is named; sent to the zero address the equity is
\* destroyed and leaves the recorded supply; a receiver with code runs it (it may fail: nothing moves; it may
\* self-destruct: it keeps what it holds).  Amount 0 to an address without code does nothing at all.
OpATransfer(c, dv, b, t) ==
  LET b1   == Charge(b, t.p, Fee(t))
      id   == t.id
      code == b.s.idc[id]
      as   == c.assets[code]
      have == b.s.eq[id][t.f]
      ok   == /\ id \in DOMAIN b.s.eq /\ code # NONE /\ ~Frozen(dv, b.s, code, id) /\ have > 0
              /\ (t.amt >= 0 \/ "Dev_NegativeAssetTransfer" \in dv)
              /\ (as.div => t.amt <= have)
      n    == IF as.div THEN t.amt ELSE have
      alive == b.s.code[t.t]
  IN IF ~ok THEN Bad(b1)
     ELSE IF t.amt = 0 /\ ~alive THEN b1
     ELSE IF t.t \in c.rev /\ alive THEN b1
     ELSE IF t.t = c.zero THEN [b1 EXCEPT !.s.eq[id][t.f] = @ - n, !.s.sup[code] = @ - (IF as.div THEN n ELSE 1)]   \* holder destroys its own equity
     ELSE RunCode(c, dv, [b1 EXCEPT !.s.eq[id][t.f] = @ - n, !.s.eq[id][t.t] = @ + n], t.t, t.f)
OpFreeze(c, b, t, v) ==
  LET b1 == Charge(b, t.p, Fee(t)) IN
  IF KnownCode(c, t.c) /\ t.f = c.assets[t.c].iss THEN [b1 EXCEPT !.s.frz[t.c] = v] ELSE Bad(b1)

(* ---------------------------------------------------------------- one transaction *)
Plain(c, dv, b, t) ==
  CASE t.k = "xfer"  -> OpXfer(c, dv, b, t)
    [] t.k = "vote"  -> OpVote(c, dv, b, t)
    [] t.k \in {"reg", "topup"} -> OpReg(c, b, t)
    [] t.k = "unreg" -> OpUnreg(c, b, t)
    [] t.k = "setrew" -> OpSetRew(c, b, t)
    [] t.k = "issue" -> OpIssue(c, dv, b, t)
    [] t.k = "repl"  -> OpRepl(c, dv, b, t)
    [] t.k = "axfer" -> OpATransfer(c, dv, b, t)
    [] t.k = "freeze" -> OpFreeze(c, b, t, TRUE)
    [] t.k = "unfreeze" -> OpFreeze(c, b, t, FALSE)

RECURSIVE Subs(_, _, _, _, _)
Subs(c, dv, b, q, i) == IF i > Len(q) THEN b ELSE Subs(c, dv, Plain(c, dv, b, q[i]), q, i + 1)

\* A box: its payer pays for the box's own gas, every sub transaction pays for itself, the miner receives exactly
\* what was paid.  The implementation credits the miner with the sub transactions' gas a second time, at the box
\* price, paid by nobody (Dev_BoxSubGasMinted).
OpBox(c, dv, b, t) ==
  LET sg == SumGas(t.subs, 1)
      b1 == Charge(b, t.p, (t.gu - sg) * t.gp)
      b2 == Subs(c, dv, b1, t.subs, 1)
      sf == b2.fees - b1.fees                                    \* the sub transactions' fees reach the income address at once
      b3 == [b2 EXCEPT !.fees = b1.fees, !.s.bal[c.income] = @ + sf]
  IN IF "Dev_BoxSubGasMinted" \in dv THEN [b3 EXCEPT !.fees = @ + sg * t.gp] ELSE b3

\* a transaction that is not packaged costs nothing and changes nothing
ApplyTx(c, dv, b, t) == IF ~t.inc THEN b ELSE IF t.k = "box" THEN OpBox(c, dv, b, t) ELSE Plain(c, dv, b, t)

RECURSIVE ApplyAll(_, _, _, _, _)
ApplyAll(c, dv, b, q, i) == IF i > Len(q) THEN b ELSE ApplyAll(c, dv, ApplyTx(c, dv, b, q[i]), q, i + 1)

Begin(s) == [s |-> s, h |-> s.h + 1, start |-> s.bal, fees |-> 0, rew |-> 0, burn |-> 0, bad |-> FALSE]

(* ---------------------------------------------------------------- end of block (assembler.go Finalize) *)
\* The reward block pays the term that signed the block before it: the reward set for that term is divided among the
\* term's nodes by their votes (equally when nobody has votes), each share rounded down to the reward precision, and
\* credited to the node's income account.  This LEMO is issued.
RECURSIVE SumV(_, _)
SumV(q, i) == IF i > Len(q) THEN 0 ELSE q[i].v + SumV(q, i + 1)
Salaries(c, s, h) ==
  LET k     == SignerTerm(s, h - 1) + 1
      total == IF k <= Len(s.rwd) THEN s.rwd[k] ELSE 0
      ps    == IF k <= Len(c.payees) THEN c.payees[k] ELSE <<>>
      n     == Len(ps)
      tv    == SumV(ps, 1)
      raw(i) == IF tv = 0 THEN total \div n ELSE (total * ps[i].v) \div tv
  IN IF total <= 0 \/ n = 0 THEN <<>> ELSE [i \in 1..n |-> [a |-> ps[i].a, n |-> raw(i) - (raw(i) % c.prec)]]
RECURSIVE PayAll(_, _, _)
PayAll(s, pay, i) == IF i > Len(pay) THEN s ELSE PayAll([s EXCEPT !.bal[pay[i].a] = @ + pay[i].n], pay, i + 1)
RECURSIVE SumPay(_, _)
SumPay(pay, i) == IF i > Len(pay) THEN 0 ELSE pay[i].n + SumPay(pay, i + 1)

\* the deposits the reward block hands back: every unregistered candidate whose deposit is still recorded and that is
\* not a deputy of the term this block starts - of the candidates whose registration is in a stable block (on a live
\* chain every registration before the interim period is)
Refundable(c, s, h) == {a \in DOMAIN s.bal : s.idx[a] /\ s.reg[a] = "was" /\ s.dep[a] > 0 /\ a \notin DeputiesAt(c, s, h)}

\* End of block, in the order the properties need: (processor) the miner's income address receives the collected fees;
\* (reward block only) term reward issue, then deposit refunds out of the pool; LAST every account's net balance
\* change of the whole block - fees, transfers, reward, refund - moves the votes of the candidate it votes for at the
\* end of the block.  Two mutants (not known defects: negative controls of the design runs): Mut_VotePassBeforeRefund
\* lets the vote pass run before the refunds, Mut_RefundNotFromPool pays the refunds without debiting the pool,
\* Mut_ZeroStartSkipped leaves out the accounts that owned nothing when the block started ("created in this block").
Finalize(c, dv, b) ==
  LET s1  == [b.s EXCEPT !.bal[c.income] = @ + b.fees, !.h = b.h]
      rwb == IsReward(b.s, b.h)
      pay == IF rwb THEN Salaries(c, s1, b.h) ELSE <<>>
      s2  == PayAll(s1, pay, 1)
      R   == IF rwb THEN Refundable(c, s2, b.h) ELSE {}
      s3  == [s2 EXCEPT !.bal = [a \in DOMAIN s2.bal |-> IF a \in R THEN s2.bal[a] + s2.dep[a]
                                                         ELSE IF a = c.pool /\ "Mut_RefundNotFromPool" \notin dv
                                                              THEN s2.bal[a] - SumOver(s2.dep, R) ELSE s2.bal[a]],
                        !.dep = [a \in DOMAIN s2.dep |-> IF a \in R THEN 0 ELSE s2.dep[a]]]
      sv  == IF "Mut_VotePassBeforeRefund" \in dv THEN s2 ELSE s3
      dl  == [a \in DOMAIN sv.bal |-> IF sv.vf[a] # NONE /\ sv.reg[sv.vf[a]] = "yes"
                                          /\ ~("Mut_ZeroStartSkipped" \in dv /\ b.start[a] = 0)
                                       THEN W(c, sv.bal[a]) - W(c, b.start[a]) ELSE 0]
  IN [b EXCEPT !.s = [s3 EXCEPT !.votes = [x \in DOMAIN s3.votes |->
                                            s3.votes[x] + SumOver(dl, {a \in DOMAIN s3.bal : s3.vf[a] = x})],
                              !.idx = IF s3.stab THEN [a \in DOMAIN s3.idx |-> s3.idx[a] \/ s3.reg[a] # "no"] ELSE @],
               !.fees = 0, !.rew = @ + SumPay(pay, 1)]

Block(c, dv, s, q) == Finalize(c, dv, ApplyAll(c, dv, Begin(s), q, 1))

(* ---------------------------------------------------------------- the properties, on states *)
NonNegBal(s) == \A a \in DOMAIN s.bal : s.bal[a] >= 0
\* C11: at the end of a block
Tally(c, s, x) == IF s.reg[x] = "yes"
                  THEN s.dep[x] \div c.D + SumOver([a \in DOMAIN s.bal |-> W(c, s.bal[a])], {a \in DOMAIN s.bal : s.vf[a] = x})
                  ELSE 0
VotesOK(c, s) == \A x \in DOMAIN s.votes : s.votes[x] = Tally(c, s, x) /\ s.votes[x] >= 0
\* C05: what the deposit pool holds beyond the recorded deposits (constant: the pool is debited exactly by refunds)
PoolSurplus(c, s) == s.bal[c.pool] - Total(s.dep)
\* C12: per asset code the recorded supply is what the holders own under the code's ids - the sum of all equity for a
\* divisible asset, the number of ids that still exist (are held by somebody) for an indivisible one; nothing negative;
\* an id that was never issued is held by nobody
IdsOf(s, code) == {i \in DOMAIN s.idc : s.idc[i] = code}
Held(s) == [i \in DOMAIN s.eq |-> Total(s.eq[i])]
SupplyOK(c, s) ==
  LET held == Held(s) IN
  /\ \A i \in DOMAIN s.eq : \A a \in DOMAIN s.eq[i] : s.eq[i][a] >= 0
  /\ \A i \in DOMAIN s.idc : s.idc[i] = NONE => held[i] = 0
  /\ \A code \in DOMAIN c.assets :
        s.sup[code] = IF c.assets[code].div THEN SumOver(held, IdsOf(s, code))
                      ELSE Cardinality({i \in IdsOf(s, code) : held[i] > 0})
====
