---- MODULE LedgerOps ----
(* The ledger semantics that C05 / C11 / C12 demand, as pure operators (no constants, no variables) so that the
   design model (Ledger.tla, model-checked) and the property monitor (TraceLedger.tla, fed with what the REAL
   processor logged) evaluate the very same definitions.

   c  - context record: V (vote rate), D (deposit rate), mindep, income, pool, zero, issuer,
        rev / sink / burn / back (contract accounts by behaviour);
        terms: deps (sequence: term index + 1 -> the accounts whose node id is a deputy of that term),
        payees (sequence: term index + 1 -> sequence of [a: income account, v: votes] of that term's nodes),
        prec (reward precision), rm (reward manager), rc (reward precompile account), rpool (reward pool total)
   dv - set of deviation keys switched on (known defects of the implementation, see Ledger.tla)
   s  - ledger state: bal, votes, vf (voteFor), reg ("no" | "yes" | "was"), dep, eq (asset equity), sup, frz, code;
        h (height of the block this is the end state of), T / I (term / interim duration in blocks),
        rwd / rwt (sequences, term index + 1 -> term reward set through the precompile / how often it was set),
        idx (the accounts in the node's candidate index: candidates as of the last STABLE block - the reward block
        enumerates the refunds from it), stab (every block of the scenario becomes stable when it is committed)
   b  - block accumulator: s, h (height of the block), start (balances at block start), fees (collected, credited at
        Finalize), rew (LEMO legitimately issued), burn (LEMO legitimately destroyed), bad (an included asset
        transaction that C12 forbids: wrong sender, non-positive issue, negative / oversized / frozen transfer)
   t  - transaction record: k, f, t, p (gas payer), amt, gl, gp, gu (gas used), inc (packaged), subs,
        x (kind specific: the term of a reward setting)                                                        *)
EXTENDS Integers, Sequences, FiniteSets

NONE == "none"
W(c, x) == x \div c.V

RECURSIVE SumOver(_, _)
SumOver(f, S) == IF S = {} THEN 0 ELSE LET x == CHOOSE y \in S : TRUE IN f[x] + SumOver(f, S \ {x})
Total(f) == SumOver(f, DOMAIN f)

RECURSIVE SumGas(_, _)
SumGas(q, i) == IF i > Len(q) THEN 0 ELSE q[i].gu + SumGas(q, i + 1)

(* ---------------------------------------------------------------- heights and terms (deputynode/term_record.go) *)
\* Term k is elected by snapshot block k*T; its deputies sign from block k*T + I + 1 (the REWARD block of term k - 1:
\* first block of a term, pays the finished term and the deferred deposit refunds) to (k+1)*T + I; blocks
\* k*T .. k*T + I (k >= 1) are the interim period.
SignerTerm(s, h) == IF h < s.T + s.I + 1 THEN 0 ELSE (h - s.I - 1) \div s.T
IsReward(s, h)   == h >= s.T + s.I + 1 /\ h % s.T = s.I + 1
IsInterim(s, h)  == h % s.T <= s.I /\ h > s.I
IsSnapshot(s, h) == h % s.T = 0
DeputiesAt(c, s, h) == LET k == SignerTerm(s, h) + 1 IN IF k <= Len(c.deps) THEN c.deps[k] ELSE {}

RECURSIVE SumSeq(_, _)
SumSeq(q, i) == IF i > Len(q) THEN 0 ELSE q[i] + SumSeq(q, i + 1)

Fee(t) == t.gu * t.gp
Charge(b, a, n) == [b EXCEPT !.s.bal[a] = @ - n, !.fees = @ + n]
Move(b, f, t, n) == [b EXCEPT !.s.bal[f] = @ - n, !.s.bal[t] = @ + n]
Bad(b) == [b EXCEPT !.bad = TRUE]

(* ---------------------------------------------------------------- LEMO transfers and contract value flows *)
\* A contract behaves as such only while it has code (s.code); SELFDESTRUCT removes the code at once.
OpXfer(c, b, t) ==
  LET b1 == Charge(b, t.p, Fee(t))  alive == b.s.code[t.t] IN
  CASE t.t \in c.rev /\ alive  -> b1                                          \* call fails: the amount does not move
    [] t.t \in c.burn /\ alive -> [b1 EXCEPT !.s.bal[t.f] = @ - t.amt,         \* SELFDESTRUCT(self): explicit burn
                                             !.burn = @ + t.amt + b1.s.bal[t.t], !.s.bal[t.t] = 0, !.s.code[t.t] = FALSE]
    [] t.t \in c.back /\ alive -> LET had == b1.s.bal[t.t] IN                  \* SELFDESTRUCT(caller): all of it goes to the caller
                                  [b1 EXCEPT !.s.bal[t.t] = 0, !.s.bal[t.f] = @ + had, !.s.code[t.t] = FALSE]
    [] OTHER                   -> Move(b1, t.f, t.t, t.amt)

(* ---------------------------------------------------------------- votes *)
\* A vote moves the voter's weight from its previous (still registered) candidate to the new one.  The weight that
\* is consistent with the end-of-block adjustment is the balance at the START of the block; the implementation uses
\* the balance just before this transaction (Dev_VoteUsesPreTxBalance).
OpVote(c, dv, b, t) ==
  LET w   == W(c, IF "Dev_VoteUsesPreTxBalance" \in dv THEN b.s.bal[t.f] ELSE b.start[t.f])
      old == b.s.vf[t.f]
      b1  == IF w > 0 /\ old # NONE /\ b.s.reg[old] = "yes" THEN [b EXCEPT !.s.votes[old] = @ - w] ELSE b
      b2  == IF w > 0 THEN [b1 EXCEPT !.s.votes[t.t] = @ + w] ELSE b1
  IN Charge([b2 EXCEPT !.s.vf[t.f] = t.t], t.p, Fee(t))

\* RegisterTx with isCandidate = true: first registration (deposit >= mindep) or top-up, by the sender's state
OpReg(c, b, t) ==
  LET b1 == Charge(b, t.p, Fee(t)) IN
  CASE b.s.reg[t.f] = "no"  -> [Move(b1, t.f, c.pool, t.amt) EXCEPT !.s.reg[t.f] = "yes", !.s.dep[t.f] = t.amt,
                                                                   !.s.votes[t.f] = t.amt \div c.D]
    [] b.s.reg[t.f] = "yes" -> LET d0 == b.s.dep[t.f] IN
                               [Move(b1, t.f, c.pool, t.amt) EXCEPT !.s.dep[t.f] = d0 + t.amt,
                                                                   !.s.votes[t.f] = @ + ((d0 + t.amt) \div c.D - d0 \div c.D)]
    [] OTHER                -> b1                                             \* never again after unregistering
\* RegisterTx with isCandidate = false: votes drop to zero; the deposit comes back from the pool at once, unless the
\* block lies in the interim period or the account is a deputy of the term that signs this block - then the deposit
\* stays recorded and is refunded by the next reward block in which the account is not a deputy (Finalize)
OpUnreg(c, b, t) ==
  LET b1 == Charge(b, t.p, Fee(t))  d0 == b.s.dep[t.f]
      deferred == IsInterim(b.s, b.h) \/ t.f \in DeputiesAt(c, b.s, b.h) IN
  IF b.s.reg[t.f] # "yes" THEN b1
  ELSE IF deferred THEN [b1 EXCEPT !.s.reg[t.f] = "was", !.s.votes[t.f] = 0]
  ELSE [Move(b1, c.pool, t.f, d0) EXCEPT !.s.reg[t.f] = "was", !.s.votes[t.f] = 0, !.s.dep[t.f] = 0]

\* The reward precompile (vm/contracts.go setRewardValue), called by an ordinary transaction that carries no LEMO:
\* only the reward manager, a value below the pool total, a term whose reward block is not yet behind (the reward
\* block itself still counts), at most two settings per term, all terms together within the pool.  A refused call
\* costs its gas and sets nothing.
OpSetRew(c, b, t) ==
  LET b1 == Charge(b, t.p, Fee(t))  k == t.x + 1
      ok == /\ t.f = c.rm /\ k >= 1 /\ k <= Len(b.s.rwd) /\ t.amt >= 0 /\ t.amt < c.rpool
            /\ (t.x + 1) * b.s.T + b.s.I + 1 >= b.h
            /\ b.s.rwt[k] < 2
            /\ SumSeq([b.s.rwd EXCEPT ![k] = t.amt], 1) <= c.rpool
  IN IF ok THEN [b1 EXCEPT !.s.rwd[k] = t.amt, !.s.rwt[k] = @ + 1] ELSE b1

(* ---------------------------------------------------------------- the issued asset (one divisible token) *)
OpIssue(c, b, t) ==   \* issue and replenish: only the issuer, only a positive amount, not while frozen
  LET b1 == Charge(b, t.p, Fee(t)) IN
  IF t.f = c.issuer /\ t.amt > 0 /\ ~b.s.frz
  THEN [b1 EXCEPT !.s.sup = @ + t.amt, !.s.eq[t.t] = @ + t.amt]
  ELSE Bad(b1)
OpATransfer(c, dv, b, t) ==  \* out of the sender's own equity only, a non-negative amount it owns, not while frozen
  LET b1 == Charge(b, t.p, Fee(t))
      ok == /\ ~b.s.frz /\ b.s.eq[t.f] > 0 /\ t.amt <= b.s.eq[t.f]
            /\ (t.amt >= 0 \/ "Dev_NegativeAssetTransfer" \in dv)
  IN IF ~ok THEN Bad(b1)
     ELSE IF t.t \in c.rev /\ b.s.code[t.t] THEN b1
     ELSE IF t.t = c.zero THEN [b1 EXCEPT !.s.eq[t.f] = @ - t.amt, !.s.sup = @ - t.amt]     \* holder destroys its own equity
     ELSE [b1 EXCEPT !.s.eq[t.f] = @ - t.amt, !.s.eq[t.t] = @ + t.amt]
OpFreeze(c, b, t, v) ==
  LET b1 == Charge(b, t.p, Fee(t)) IN IF t.f = c.issuer THEN [b1 EXCEPT !.s.frz = v] ELSE Bad(b1)

(* ---------------------------------------------------------------- one transaction *)
Plain(c, dv, b, t) ==
  CASE t.k = "xfer"  -> OpXfer(c, b, t)
    [] t.k = "vote"  -> OpVote(c, dv, b, t)
    [] t.k \in {"reg", "topup"} -> OpReg(c, b, t)
    [] t.k = "unreg" -> OpUnreg(c, b, t)
    [] t.k = "setrew" -> OpSetRew(c, b, t)
    [] t.k \in {"issue", "repl"} -> OpIssue(c, b, t)
    [] t.k = "axfer" -> OpATransfer(c, dv, b, t)
    [] t.k = "freeze" -> OpFreeze(c, b, t, TRUE)
    [] t.k = "unfreeze" -> OpFreeze(c, b, t, FALSE)

RECURSIVE Subs(_, _, _, _, _)
Subs(c, dv, b, q, i) == IF i > Len(q) THEN b ELSE Subs(c, dv, Plain(c, dv, b, q[i]), q, i + 1)

\* A box: its payer pays for the box's own gas, every sub transaction pays for itself, the miner receives exactly
\* what was paid.  The implementation credits the miner with the sub transactions' gas a second time, at the box
\* price, paid by nobody (Dev_BoxSubGasMinted).
OpBox(c, dv, b, t) ==
  LET sg == SumGas(t.subs, 1)
      b1 == Charge(b, t.p, (t.gu - sg) * t.gp)
      b2 == Subs(c, dv, b1, t.subs, 1)
      sf == b2.fees - b1.fees                                    \* the sub transactions' fees reach the income address at once
      b3 == [b2 EXCEPT !.fees = b1.fees, !.s.bal[c.income] = @ + sf]
  IN IF "Dev_BoxSubGasMinted" \in dv THEN [b3 EXCEPT !.fees = @ + sg * t.gp] ELSE b3

\* a transaction that is not packaged costs nothing and changes nothing
ApplyTx(c, dv, b, t) == IF ~t.inc THEN b ELSE IF t.k = "box" THEN OpBox(c, dv, b, t) ELSE Plain(c, dv, b, t)

RECURSIVE ApplyAll(_, _, _, _, _)
ApplyAll(c, dv, b, q, i) == IF i > Len(q) THEN b ELSE ApplyAll(c, dv, ApplyTx(c, dv, b, q[i]), q, i + 1)

Begin(s) == [s |-> s, h |-> s.h + 1, start |-> s.bal, fees |-> 0, rew |-> 0, burn |-> 0, bad |-> FALSE]

(* ---------------------------------------------------------------- end of block (assembler.go Finalize) *)
\* The reward block pays the term that signed the block before it: the reward set for that term is divided among the
\* term's nodes by their votes (equally when nobody has votes), each share rounded down to the reward precision, and
\* credited to the node's income account.  This LEMO is issued.
RECURSIVE SumV(_, _)
SumV(q, i) == IF i > Len(q) THEN 0 ELSE q[i].v + SumV(q, i + 1)
Salaries(c, s, h) ==
  LET k     == SignerTerm(s, h - 1) + 1
      total == IF k <= Len(s.rwd) THEN s.rwd[k] ELSE 0
      ps    == IF k <= Len(c.payees) THEN c.payees[k] ELSE <<>>
      n     == Len(ps)
      tv    == SumV(ps, 1)
      raw(i) == IF tv = 0 THEN total \div n ELSE (total * ps[i].v) \div tv
  IN IF total <= 0 \/ n = 0 THEN <<>> ELSE [i \in 1..n |-> [a |-> ps[i].a, n |-> raw(i) - (raw(i) % c.prec)]]
RECURSIVE PayAll(_, _, _)
PayAll(s, pay, i) == IF i > Len(pay) THEN s ELSE PayAll([s EXCEPT !.bal[pay[i].a] = @ + pay[i].n], pay, i + 1)
RECURSIVE SumPay(_, _)
SumPay(pay, i) == IF i > Len(pay) THEN 0 ELSE pay[i].n + SumPay(pay, i + 1)

\* the deposits the reward block hands back: every unregistered candidate whose deposit is still recorded and that is
\* not a deputy of the term this block starts - of the candidates whose registration is in a stable block (on a live
\* chain every registration before the interim period is)
Refundable(c, s, h) == {a \in DOMAIN s.bal : s.idx[a] /\ s.reg[a] = "was" /\ s.dep[a] > 0 /\ a \notin DeputiesAt(c, s, h)}

\* End of block, in the order the properties need: (processor) the miner's income address receives the collected fees;
\* (reward block only) term reward issue, then deposit refunds out of the pool; LAST every account's net balance
\* change of the whole block - fees, transfers, reward, refund - moves the votes of the candidate it votes for at the
\* end of the block.  Two mutants (not known defects: negative controls of the design runs): Mut_VotePassBeforeRefund
\* lets the vote pass run before the refunds, Mut_RefundNotFromPool pays the refunds without debiting the pool.
Finalize(c, dv, b) ==
  LET s1  == [b.s EXCEPT !.bal[c.income] = @ + b.fees, !.h = b.h]
      rwb == IsReward(b.s, b.h)
      pay == IF rwb THEN Salaries(c, s1, b.h) ELSE <<>>
      s2  == PayAll(s1, pay, 1)
      R   == IF rwb THEN Refundable(c, s2, b.h) ELSE {}
      s3  == [s2 EXCEPT !.bal = [a \in DOMAIN s2.bal |-> IF a \in R THEN s2.bal[a] + s2.dep[a]
                                                         ELSE IF a = c.pool /\ "Mut_RefundNotFromPool" \notin dv
                                                              THEN s2.bal[a] - SumOver(s2.dep, R) ELSE s2.bal[a]],
                        !.dep = [a \in DOMAIN s2.dep |-> IF a \in R THEN 0 ELSE s2.dep[a]]]
      sv  == IF "Mut_VotePassBeforeRefund" \in dv THEN s2 ELSE s3
      dl  == [a \in DOMAIN sv.bal |-> IF sv.vf[a] # NONE /\ sv.reg[sv.vf[a]] = "yes"
                                       THEN W(c, sv.bal[a]) - W(c, b.start[a]) ELSE 0]
  IN [b EXCEPT !.s = [s3 EXCEPT !.votes = [x \in DOMAIN s3.votes |->
                                            s3.votes[x] + SumOver(dl, {a \in DOMAIN s3.bal : s3.vf[a] = x})],
                              !.idx = IF s3.stab THEN [a \in DOMAIN s3.idx |-> s3.idx[a] \/ s3.reg[a] # "no"] ELSE @],
               !.fees = 0, !.rew = @ + SumPay(pay, 1)]

Block(c, dv, s, q) == Finalize(c, dv, ApplyAll(c, dv, Begin(s), q, 1))

(* ---------------------------------------------------------------- the properties, on states *)
NonNegBal(s) == \A a \in DOMAIN s.bal : s.bal[a] >= 0
\* C11: at the end of a block
Tally(c, s, x) == IF s.reg[x] = "yes"
                  THEN s.dep[x] \div c.D + SumOver([a \in DOMAIN s.bal |-> W(c, s.bal[a])], {a \in DOMAIN s.bal : s.vf[a] = x})
                  ELSE 0
VotesOK(c, s) == \A x \in DOMAIN s.votes : s.votes[x] = Tally(c, s, x) /\ s.votes[x] >= 0
\* C05: what the deposit pool holds beyond the recorded deposits (constant: the pool is debited exactly by refunds)
PoolSurplus(c, s) == s.bal[c.pool] - Total(s.dep)
\* C12
SupplyOK(s) == s.sup = Total(s.eq) /\ \A a \in DOMAIN s.eq : s.eq[a] >= 0
====
