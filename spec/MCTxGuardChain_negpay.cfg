SPECIFICATION Spec
CONSTANTS Times <- McTimesC
 ExpChoices <- McExp
 OfferMenu <- McMenuRA
 MaxBlocks = 3
 MaxBoots = 0
 DupCheck = TRUE
 PayloadIdentity = FALSE
 Encs = {"c"}
 CarrierIdentity = FALSE
INVARIANTS AtMostOnce
CHECK_DEADLOCK FALSE
