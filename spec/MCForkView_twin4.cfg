SPECIFICATION Spec
CONSTANTS Addrs <- McAddrs
 InitStable <- McInitStable
 AddrN = 1
 Mixed = FALSE
 MaxBlocks = 4
 MaxWrites = 1
 MaxStable = 2
 MaxRestart = 0
 MaxReads = 0
 LeafOnly = TRUE
 MaxSlots = 2
 CanonSlots = TRUE
 Kinds = {"vroot"}
 IdentByHash = TRUE
INVARIANTS TypeOK ViewIsNearestWrite ForksIsolated PersistEqualsStableView
PROPERTIES PruneExact WriteLocal ReadPure AttrInert
CHECK_DEADLOCK FALSE
