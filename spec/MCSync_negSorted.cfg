SPECIFICATION Spec
CONSTANTS NB = 4
 Confs <- McConfs2
 NT = 0
 MaxDup = 1
 Races = TRUE
 BugAddMiddle = TRUE
 BugTxLoopVar = FALSE
 BugConfirmRace = FALSE
INVARIANTS CacheSorted
PROPERTY Forward
CHECK_DEADLOCK FALSE
