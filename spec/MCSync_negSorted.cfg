SPECIFICATION Spec
CONSTANTS NB = 4
 Confs <- McConfs2
 NT = 0
 MaxDup = 1
 BugAddMiddle = TRUE
 BugTxLoopVar = FALSE
INVARIANTS CacheSorted
PROPERTY Forward
CHECK_DEADLOCK FALSE
