SPECIFICATION Spec
CONSTANTS NB = 4
 Confs <- McConfs2
 NT = 0
 MaxDup = 1
 Races = TRUE
 BugAddMiddle = TRUE
 BugTxLoopVar = FALSE
 BugConfirmRace = FALSE
 MaxBatch = 0
 NBatch = 0
 BugBatchBreak = FALSE
INVARIANTS CacheSorted
PROPERTY Forward
CHECK_DEADLOCK FALSE
