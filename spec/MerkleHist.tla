---- MODULE MerkleHist ----
(* C17 design, HISTORIES of Merkle computations over shared leaf storage.
   "The root is determined by the ordered leaf list alone" also means: a computation neither depends on nor
   disturbs other computations.  Real callers hand the library slices of storage they keep using: a list built
   with append (spare capacity behind the last leaf), a prefix or sub-range hashes[i:j] of a longer list (the
   following leaves sit in the slice's capacity), a scratch buffer refilled for every call, and they keep trees
   (Root / HashNodes results) while they go on computing and appending.

   The model is memory shaped.  mem is the caller's backing array (Cap cells), ls the list AS ORIGINALLY GIVEN
   (cells 1..Len(ls) were written by AppendLeaf and by nobody else), buf a reusable scratch array, hd the trees
   the caller still holds.  Compute(sh, i, j, slot) hands the library the sub-range i..j (0-based, half open) as
     "view"    mem[i:j]      len j-i, capacity up to the end of the array (Go's plain re-slice)
     "clip"    mem[i:j:j]    len = cap
     "built"   a private list built for this call
     "scratch" buf[:0] refilled with the range (len j-i, cap BufCap), the buffer is reused by the next such call
   and keeps the tree in slot `slot` (0: drops it).  Reread(s) asks a kept tree again.
   InPlace = FALSE is the contract (merkle_tree.go: calculateNodes builds its node queue in an array of its own):
   the clauses hold on every reachable state.  InPlace = TRUE is the negative control: the queue is the caller's
   slice and parents are appended to it with Go's append semantics (written behind the slice while capacity lasts,
   moved to a private array afterwards) - TLC must find ListKept / ResultPure / HandlesStable violated. *)
EXTENDS Naturals, Sequences, FiniteSets, TLC
CONSTANTS Full,        \* leaf lists; the caller's list is always a prefix of one of them
          Cap,         \* cells of the caller's array (>= longest list)
          BufCap,      \* cells of the scratch buffer
          Slots,       \* trees a caller holds across later computations
          InPlace
FreeH(l, r) == <<"H", l, r>>
INSTANCE MerkleOps
VARIABLES ls, mem, buf, hd, pure
vars == <<ls, mem, buf, hd, pure>>
View == <<ls, mem, hd, pure>>          \* with InPlace = FALSE nothing ever reads buf: states that differ in it only are bisimilar

FullQuick == {<<"a", "b", "c", "d">>}
FullMid == {<<"a", "b", "c", "d", "e">>, <<"a", "a", "b", "a">>}
FullThorough == {<<"a", "b", "c", "d", "e", "f">>, <<"a", "a", "b", "a", "b">>}

Atoms == UNION {{f[k] : k \in 1..Len(f)} : f \in Full}
Shapes == {"view", "clip", "built", "scratch"}
Leaf(x) == <<"leaf", x>>
Free == <<"free">>
NoH == [tag |-> <<"none", 0, 0>>, given |-> <<>>, ar |-> "own", off |-> 0, n |-> 0, own |-> <<>>]
Given(i, j) == [k \in 1..(j - i) |-> Leaf(ls[i + k])]          \* the range as originally given
IsPrefix(s, t) == Len(s) <= Len(t) /\ \A k \in 1..Len(s) : s[k] = t[k]

\* Go: `nodes = slice; for off+1 < len(nodes) { nodes = append(nodes, H(nodes[off], nodes[off+1])); off += 2 }` on the slice
\* (cells, off0, len, cap): append writes the cell behind the slice while len < cap, else moves everything to a private array.
Build(cells, off0, len, cap) ==
  LET RECURSIVE B(_, _, _, _, _)
      B(c, alias, own, n, o) ==
        LET at(k) == IF alias THEN c[off0 + k] ELSE own[k] IN
        IF o + 1 < n THEN
          LET h == FreeH(at(o + 1), at(o + 2)) IN
          IF alias /\ n < cap THEN B([c EXCEPT ![off0 + n + 1] = h], TRUE, <<>>, n + 1, o + 2)
          ELSE IF alias THEN B(c, FALSE, Append([k \in 1..n |-> c[off0 + k]], h), n + 1, o + 2)
          ELSE B(c, FALSE, Append(own, h), n + 1, o + 2)
        ELSE [cells |-> c, alias |-> alias, own |-> own, n |-> n]
  IN B(cells, TRUE, <<>>, len, 0)

Deref(h) == IF h.ar = "own" THEN h.own ELSE [k \in 1..h.n |-> (IF h.ar = "mem" THEN mem ELSE buf)[h.off + k]]

Init == /\ ls = <<>> /\ mem = [k \in 1..Cap |-> Free] /\ buf = [k \in 1..BufCap |-> Free]
        /\ hd = [s \in 1..Slots |-> NoH] /\ pure = TRUE

\* the caller appends a leaf to its list (the cell behind the list: spare capacity of an append-built slice)
AppendLeaf(x) ==
  /\ Len(ls) < Cap /\ \E f \in Full : IsPrefix(Append(ls, x), f)
  /\ ls' = Append(ls, x) /\ mem' = [mem EXCEPT ![Len(ls) + 1] = Leaf(x)]
  /\ UNCHANGED <<buf, hd, pure>>

Compute(sh, i, j, slot) ==
  /\ i <= j /\ j <= Len(ls)
  /\ (sh = "scratch" => j - i <= BufCap)
  /\ LET n == j - i
         buf1 == IF sh = "scratch" THEN [k \in 1..BufCap |-> IF k <= n THEN mem[i + k] ELSE Free] ELSE buf
         ar == IF sh = "scratch" THEN "buf" ELSE "mem"
         off == IF sh = "scratch" THEN 0 ELSE i
         cap == IF sh = "view" THEN Cap - i ELSE IF sh = "scratch" THEN BufCap ELSE n
         cells == IF ar = "buf" THEN buf1 ELSE mem
         read == [k \in 1..n |-> cells[off + k]]                      \* what the library reads: the cells, now
         b == IF InPlace /\ sh # "built" THEN Build(cells, off, n, cap)
              ELSE [cells |-> cells, alias |-> FALSE, own |-> Nodes(FreeH, read), n |-> Len(Nodes(FreeH, read))]
         out == IF b.alias THEN [k \in 1..b.n |-> b.cells[off + k]] ELSE b.own
         h == [tag |-> <<sh, i, j>>, given |-> Given(i, j), ar |-> IF b.alias THEN ar ELSE "own", off |-> off, n |-> b.n,
               own |-> IF b.alias THEN <<>> ELSE b.own]
     IN /\ mem' = IF ar = "mem" THEN b.cells ELSE mem
        /\ buf' = IF ar = "buf" THEN b.cells ELSE buf
        /\ pure' = (out = Nodes(FreeH, Given(i, j)))                  \* the result is the pure function of the range as given
        /\ hd' = IF slot = 0 THEN hd ELSE [hd EXCEPT ![slot] = h]
        /\ UNCHANGED ls

Reread(s) ==
  /\ hd[s] # NoH
  /\ pure' = (Deref(hd[s]) = Nodes(FreeH, hd[s].given))
  /\ UNCHANGED <<ls, mem, buf, hd>>

Next == \/ \E x \in Atoms : AppendLeaf(x)
        \/ \E sh \in Shapes, i \in 0..Cap, j \in 0..Cap, slot \in 0..Slots : Compute(sh, i, j, slot)
        \/ \E s \in 1..Slots : Reread(s)
Spec == Init /\ [][Next]_vars

\* ---- clauses ----
ListKept == \A k \in 1..Len(ls) : mem[k] = Leaf(ls[k])                  \* no computation changes the caller's list
ResultPure == pure                                                     \* every result = pure function of the list as given
HandlesStable == \A s \in 1..Slots : hd[s] # NoH => Deref(hd[s]) = Nodes(FreeH, hd[s].given)   \* nor an earlier result
====
