SPECIFICATION Spec
CONSTANTS NB = 5
 Confs <- McConfs2x
 NT = 0
 MaxDup = 0
 BugAddMiddle = FALSE
 BugTxLoopVar = FALSE
INVARIANTS TypeOK ChainLinear Converges CacheSorted CacheKeepsUntilParent CacheOnlyWaiting ConfirmsKept TxOnce
PROPERTY Forward
CHECK_DEADLOCK FALSE
