SPECIFICATION Spec
CONSTANTS NB = 5
 Confs <- McConfs2x
 NT = 0
 MaxDup = 0
 Races = TRUE
 BugAddMiddle = FALSE
 BugTxLoopVar = FALSE
 BugConfirmRace = FALSE
INVARIANTS TypeOK ChainLinear Converges CacheSorted CacheKeepsUntilParent CacheOnlyWaiting ConfirmsKept TxOnce
PROPERTY Forward
CHECK_DEADLOCK FALSE
