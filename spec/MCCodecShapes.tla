---- MODULE MCCodecShapes ----
(* C14 part 2, design side.  No transitions: TLC enumerates every (type, shape) as an initial state,
   checks the wire model of the value-dependent codec branches on it, and the dumped graph is the
   work list of the Go driver, which instantiates every shape on the REAL types. *)
EXTENDS CodecShapes, TLC
VARIABLES typ, sh
vars == <<typ, sh>>
Init == typ \in Types /\ sh \in Shapes(typ)
Next == UNCHANGED vars
Spec == Init /\ [][Next]_vars

InvRoundTrip == RoundTrip(typ, sh)
InvInjective == \A k \in PayloadKinds : Injective(k)
\* everything that is hashed or signed must be byte-stable
InvClass     == /\ Class(typ) \in {"bytes", "value"}
                /\ (typ \in {"header", "block", "tx", "log", "deputy", "asset", "equity"} => Class(typ) = "bytes")
\* every registered change-log type has shapes, and each shape names flags of the right payload kind
InvLogShapes == typ = "log" => /\ sh.t \in LogTypes /\ sh.nv \in Flags(NewKind(sh.t)) /\ sh.ex \in Flags(ExtraKind(sh.t))
====
