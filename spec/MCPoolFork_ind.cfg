SPECIFICATION IndSpecQ
CONSTANTS NB = 5
 ND = 3
 NE = 1
 Tx <- McTx2
 TxEp <- McTxEp1of2
 Pend <- McPend2
 PruneFirst = FALSE
INVARIANT PoolUpper
PROPERTY PoolLower
INVARIANT HeadOK
INVARIANT UnconfCached
CHECK_DEADLOCK FALSE
