SPECIFICATION Spec
CONSTANTS NC = 2
 K = 1
 MaxVotes = 2
 MaxLive = 2
 MaxSteps = 0
 RestartAnywhere = FALSE
 Touch = {0}
 VMaps = {2}
 Persist = TRUE
 MaxChg = 2
 Dev = {"Dev_StaleSlotLength"}
INVARIANTS TypeOK TopIsFullSort FileOK
PROPERTIES RestartKeepsTop
CHECK_DEADLOCK FALSE
