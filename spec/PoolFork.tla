---- MODULE PoolFork ----
(* C18, last clause: after a fork switch the pool holds the abandoned fork's transactions that are not on the new
   fork, and none that are.  Engine side: DPoVP.saveNewBlock / onCurrentChanged (chain/consensus/dpovp.go) with
   TxGuard.GetTxsByBranch.  Blocks are 1..NB with parent[b] < b; block b carries the transactions txs[b]; a
   transaction occurs at most once on any branch (else the block would be a replay, C04).  The node is an observer
   and receives no confirms, so nothing becomes stable and every fork stays alive.  Every transaction of the universe
   is pending when the run starts. *)
EXTENDS Naturals, FiniteSets, TLC
CONSTANTS NB, ND, Tx
Block == 1..NB
G == 0
Q == (2 * ND + 2) \div 3
VARIABLES parent, txs, known, head, pool
vars == <<parent, txs, known, head, pool>>
RECURSIVE Anc(_)
Anc(b) == IF b = G THEN {G} ELSE {b} \cup Anc(parent[b])
H(b) == Cardinality(Anc(b)) - 1
OnChain(b) == UNION {txs[x] : x \in Anc(b) \ {G}}
NoReplay(p, t) == \A b \in Block : LET RECURSIVE A(_)
                                       A(x) == IF x = G THEN {G} ELSE {x} \cup A(p[x])
                                   IN \A x, y \in A(b) \ {G} : x # y => t[x] \cap t[y] = {}
Init == /\ parent \in {f \in [Block -> Block \cup {G}] : \A b \in Block : f[b] < b}
        /\ txs \in [Block -> {s \in SUBSET Tx : Cardinality(s) <= 1}]
        /\ NoReplay(parent, txs)
        /\ known = {G} /\ head = G /\ pool = Tx
Best(S) == CHOOSE x \in S : \A y \in S : H(x) > H(y) \/ (H(x) = H(y) /\ x <= y)
\* ForkManager.UpdateFork with the stable block at genesis
NewHead(b, kn) == IF parent[b] = head THEN b
                  ELSE LET cand == Best(kn \ {G}) IN
                       IF H(cand) > H(head) /\ H(cand) % Q = 0 THEN cand ELSE head
InsertBlock(b) ==
  /\ b \notin known /\ parent[b] \in known
  /\ known' = known \cup {b}
  /\ head' = NewHead(b, known \cup {b})
  /\ pool' = Tx \ OnChain(head')          \* what onCurrentChanged / AddTxs of side-fork blocks must leave behind
  /\ UNCHANGED <<parent, txs>>
Next == \E b \in Block : InsertBlock(b)
Spec == Init /\ [][Next]_vars
\* the clause, as a state invariant
PoolIsOffChain == pool = Tx \ OnChain(head)
====
