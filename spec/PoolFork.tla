---- MODULE PoolFork ----
(* C18, last clause: after a fork switch the pool holds the abandoned fork's transactions that are not on the new
   fork, and none that are.  Engine side: DPoVP.saveNewBlock / InsertConfirms / onCurrentChanged / onStableChanged
   (chain/consensus/dpovp.go) with TxGuard.GetTxsByBranch / ExistTx / DelOldBlocks (chain/txpool/tx_guard.go).

   UNIVERSE (chosen once in Init).  Blocks are 1..NB with parent[b] < b (G = 0 is genesis); block b carries the
   transactions txs[b]; a transaction occurs at most once on any branch (else the block would be a replay, C04).
   TIME.  Block times come from NE epochs that lie more than the maximum transaction lifetime (30 min) apart:
   ep[b] is the epoch of block b, never smaller than its parent's (a chain that stalled stamps the next block a
   whole epoch later).  Every transaction t has an expiration in epoch TxEp[t]; a block may only carry transactions
   whose expiration is within [block time, block time + lifetime], i.e. of its own epoch.  `now` is the epoch of the
   latest block time the node has seen: the pool is always asked for the transactions that are pending at that
   time (TxPool.GetTxs(now) drops what is expired), so transactions of an earlier epoch are gone for good once a
   block of a later epoch arrived, and the clause is about the live ones.  After every InsertBlock / InsertConfirms:

        UPPER  pool \subseteq (seen \cap Live(now)) \ OnChain(head)          ("none that are" on the new fork, nothing
                                                                             expired, nothing the node was never given)
        LOWER  every transaction that was pending before the step or lies in a block of the OLD head's branch back
               to the common ancestor with the new head (the abandoned fork) is pending afterwards, unless it is
               on the new head's chain or expired                           ("contains the abandoned fork's
                                                                             transactions", loses no pending one)

   where seen = the transactions the node has ever been given: those submitted to its pool before the run (any
   member of Pend: most transactions of other miners' blocks have never been in our pool) and those of every block
   it stored.  A transaction the node only knows from a side block that was never on its head's branch and that was
   never in its pool may or may not be pending - the clause does not speak about it (the code makes it pending when
   the side block leaves the head where it is, and not when the block makes the node switch to another stored
   leaf: an inconsistency of saveNewBlock, not a violation).

   STABLE.  ND deputies, a block is stable with Q = ceil(2 ND / 3) signers, the miner included; the node is an
   observer and never signs.  A block may arrive carrying enough confirms (c = 1: it becomes stable inside the same
   saveNewBlock that stores it, siblings of the stable chain are pruned from the store and the head may have to
   leave a fork that was cut), or the confirms arrive later in a packet of their own (InsertConfirms).  conf is the
   set of blocks stored with enough confirms.

   MECHANISM (what the engine does to the pool, so that the clause is a checked invariant of the design and not a
   definition): cache = the blocks held by the TxGuard.  Every stored block enters it (SaveBlock); when the stable
   block moves, the blocks more than a lifetime older than the new stable block leave it (DelOldBlocks): those of
   an earlier epoch.  A head change to a child removes the child's transactions; any other head change asks the
   guard for the two branches down to the common ancestor (GetTxsByBranch) - when one of their blocks is not cached
   the pool is left alone -, adds the abandoned branch's transactions and then removes the new branch's; a block
   that does not change the head adds its transactions that the guard does not find on the current fork.
   PruneFirst = FALSE is the engine as designed: the guard is pruned AFTER the head change was handled, so both
   branches (they descend from the old stable block) are still cached.  PruneFirst = TRUE is the negative control:
   pruning first loses the pool update of a fork switch that comes with a stable change across epochs.

   The transactions that are pending when the run starts are one of the sets in Pend.

   INDIRECT SWITCHES.  The block the node is given is not always the block it switches to: UpdateFork re-evaluates
   ALL stored leaves whenever a block arrives that does not extend the head, and the eligibility of a leaf depends
   on its distance to the STABLE block - a higher leaf that was stored while its distance was not a multiple of Q
   becomes eligible when the stable block moves under it (InsertConfirms does not re-evaluate), and the next block
   that arrives on any other fork makes the node switch to it.  The pool must then be updated with the branches of
   (old head, NEW HEAD), not (old head, delivered block): the delivered block is on neither of them, its
   transactions that were pending stay pending.  ind (history) counts these steps: head' \notin {head, delivered
   block}; the check selects behaviours by it and requires that they occur on the real node. *)
EXTENDS Naturals, FiniteSets, TLC
CONSTANTS NB, ND, NE, Tx, TxEp, Pend, PruneFirst
Block == 1..NB
G == 0
Q == (2 * ND + 2) \div 3
Epoch == 0..(NE - 1)
VARIABLES parent, txs, ep, txep,        \* the universe (txep = TxEp: the transactions and their epochs, for the binding)
          known, conf, stable, head,    \* the node's store: stable chain + unconfirmed tree
          cache, now, pool,
          seen,                         \* history: every transaction submitted or stored in a block so far
          ind                           \* history: head changes so far to a block that is not the one just delivered
vars == <<parent, txs, ep, txep, known, conf, stable, head, cache, now, pool, seen, ind>>
RECURSIVE Anc(_)
Anc(b) == IF b = G THEN {G} ELSE {b} \cup Anc(parent[b])
H(b) == Cardinality(Anc(b)) - 1
Ep(b) == IF b = G THEN 0 ELSE ep[b]
TxsOf(S) == UNION {txs[x] : x \in S \ {G}}
OnChain(b) == TxsOf(Anc(b))
Live(n) == {t \in Tx : TxEp[t] >= n}
Max(a, b) == IF a >= b THEN a ELSE b
NoReplay(p, t) == \A b \in Block : LET RECURSIVE A(_)
                                       A(x) == IF x = G THEN {G} ELSE {x} \cup A(p[x])
                                   IN \A x, y \in A(b) \ {G} : x # y => t[x] \cap t[y] = {}
EpOK(p, e) == \A b \in Block : e[b] >= (IF p[b] = G THEN 0 ELSE e[p[b]])    \* time never runs backwards on a branch
TxsOK(p, e, t) == /\ \A b \in Block : \A x \in t[b] : TxEp[x] = e[b]       \* expiration within the carrying block's lifetime window
                  /\ NoReplay(p, t)
Trees == {f \in [Block -> Block \cup {G}] : \A b \in Block : f[b] < b}
\* the universe is a tree of Shapes (all of Trees unless a configuration focuses on a family)
InitIn(Shapes) ==
        /\ parent \in Shapes
        /\ ep \in {e \in [Block -> Epoch] : EpOK(parent, e)}
        /\ txs \in {t \in [Block -> {s \in SUBSET Tx : Cardinality(s) <= 1}] : TxsOK(parent, ep, t)}
        /\ txep = TxEp
        /\ known = {G} /\ conf = {} /\ stable = G /\ head = G
        /\ cache = {G} /\ now = 0 /\ pool \in Pend /\ seen = pool /\ ind = 0
Init == InitIn(Trees)
\* ---- store.ChainDatabase.SetStableBlock, ForkManager (as in Consensus.tla) ----
Unconf(kn, st) == {b \in kn : st \in Anc(b) /\ b # st}
Prune(kn, st) == {b \in kn : b \in Anc(st) \/ st \in Anc(b)}
Best(S, dflt) == IF S = {} THEN dflt
                 ELSE CHOOSE x \in S : \A y \in S : H(x) > H(y) \/ (H(x) = H(y) /\ x <= y)     \* ChooseNewFork
NewHead(b, kn, st) ==                                                                            \* UpdateFork
  LET un == Unconf(kn, st) IN
  IF head \notin un THEN Best(un, st)
  ELSE IF parent[b] = head THEN b
  ELSE LET cand == Best(un, st) IN
       IF H(cand) > H(head) /\ (H(cand) - H(st)) % Q = 0 THEN cand ELSE head
\* ---- TxGuard ----
Expire(ca, st) == {x \in ca : Ep(x) >= Ep(st)}                            \* DelOldBlocks(newStable.Time)
Exist(h, t, ca) == \E x \in (Anc(h) \ {G}) \cap ca : t \in txs[x]          \* ExistTx(current, tx)
\* ---- DPoVP.onCurrentChanged ----
Changed(old, new, ca, p) ==
  IF parent[new] = old THEN p \ txs[new]
  ELSE LET ob == Anc(old) \ Anc(new)
           nb == Anc(new) \ Anc(old)
       IN IF (ob \cup nb) \subseteq ca THEN (p \cup TxsOf(ob)) \ TxsOf(nb)
          ELSE p                                                          \* ErrNotFoundBlockCache: logged, nothing done
\* saveNewBlock; c = 1: the block arrives with enough confirms
InsertBlock(b, c) ==
  /\ b \notin known /\ parent[b] \in known /\ H(b) > H(stable)
  /\ LET st2 == IF c = 1 THEN b ELSE stable
         kn2 == Prune(known \cup {b}, st2)
         hd2 == NewHead(b, kn2, st2)
         ca1 == cache \cup {b}
         ca2 == IF st2 # stable THEN Expire(ca1, st2) ELSE ca1
         cas == IF PruneFirst THEN ca2 ELSE ca1
         p2 == IF hd2 # head THEN Changed(head, hd2, cas, pool)
               ELSE pool \cup {t \in txs[b] : ~Exist(head, t, cas)}
         nw2 == Max(now, ep[b])
     IN /\ conf' = IF c = 1 THEN conf \cup {b} ELSE conf
        /\ stable' = st2 /\ known' = kn2 /\ head' = hd2 /\ cache' = ca2 /\ now' = nw2
        /\ pool' = p2 \cap Live(nw2) /\ seen' = seen \cup txs[b]
        /\ ind' = IF hd2 \notin {head, b} THEN ind + 1 ELSE ind
  /\ UNCHANGED <<parent, txs, ep, txep>>
\* a confirm packet that completes the quorum of a stored block above the stable one
InsertConfirms(b) ==
  /\ b \in known \ {G} /\ b \notin conf /\ H(b) > H(stable)
  /\ LET kn2 == Prune(known, b)
         un == Unconf(kn2, b)
         hd2 == IF head \notin un THEN Best(un, b) ELSE head                \* UpdateForkForConfirm
         ca2 == Expire(cache, b)
         cas == IF PruneFirst THEN ca2 ELSE cache
         p2 == IF hd2 # head THEN Changed(head, hd2, cas, pool) ELSE pool
     IN /\ conf' = conf \cup {b} /\ stable' = b /\ known' = kn2 /\ head' = hd2 /\ cache' = ca2
        /\ pool' = p2 \cap Live(now)
  /\ UNCHANGED <<parent, txs, ep, txep, now, seen, ind>>
Next == \/ \E b \in Block, c \in {0, 1} : InsertBlock(b, c)
        \/ \E b \in Block : InsertConfirms(b)
Spec == Init /\ [][Next]_vars
\* the clause: UPPER as a state invariant, LOWER as a property of every step
PoolUpper == pool \subseteq (seen \cap Live(now)) \ OnChain(head)
Abandoned(old, new) == TxsOf(Anc(old) \ Anc(new))
PoolLowerStep == ((pool \cup Abandoned(head, head')) \cap Live(now')) \ OnChain(head') \subseteq pool'
PoolLower == [][PoolLowerStep]_vars
HeadOK == head \in known /\ stable \in Anc(head) /\ \A b \in known : b \in Anc(stable) \/ stable \in Anc(b)
\* the branches of any possible fork switch are cached (why pruning after the switch is safe)
UnconfCached == Unconf(known, stable) \subseteq cache
====
