---- MODULE BlockAccept ----
(* C02: which blocks a node may add.  T is a valid candidate block (parent known, height parent+1, mined at the
   start of its miner's 3-second slot, two transfers) offered in one of three chain situations; every other
   offered block is T with ONE corruption, optionally re-signed.  Breaks(m, r) names the conditions of the
   property the offered block violates; it is valid iff it violates none.  A valid block whose hash is not
   in the chain yet is added; anything else is refused and refusal changes nothing.
     conditions: parent (known), height (= parent+1), time (not before parent, not ahead of the clock),
                 extra (<= 256 bytes), signer (signed by the deputy whose slot it is, who is its miner address),
                 body (tx list and change logs are the ones the header commits to), reexec (roots and gas figures
                 reproduce) *)
EXTENDS Naturals, FiniteSets, TLC
Resign == {"none", "right", "other", "outsider"}
\* corruptions that change the header hash (so the original signature no longer matches); *_rebuilt = the whole block
\* re-executed by the real assembler with the corrupted field, so that all roots are consistent with it
HeaderMut == {"parent_unknown", "parent_grand", "miner_other", "version_root", "log_root", "tx_root", "gas_used",
              "gas_limit", "height_plus", "height_minus", "height_plus_rebuilt", "height_minus_rebuilt", "time_before_parent", "time_in_slot", "time_next_slot",
              "time_future", "time_future_rebuilt", "extra_long", "extra_long_multibyte", "extra_other"}
\* corruptions that leave the header hash alone
\* (txs_gas_one / txs_gas_shift: the gasUsed figure a transaction carries in the block body - not covered by any hash - is changed
\*  for one transaction, or moved from one transaction to the other so that the sum stays)
BodyMut == {"none", "sig_reencoded", "sig_garbage", "txs_drop", "txs_dup", "txs_swap", "logs_drop", "confirm_garbage", "txs_gas_one", "txs_gas_shift"}
\* ---- family "tx": T re-executed by the real assembler with more transactions Z (one, for some classes two) of some class, signed by the right deputy
\* (every root and gas figure is consistent; only Z itself may be ill-formed, expired or a replay).  bt = the block's time,
\* L = the maximum transaction lifetime; block A1 (an ancestor of T in scenarios 2 and 3) carries a transfer X.
ZValid == {"z_ok",                \* one more ordinary transfer
           "z_exp_now",           \* expires exactly at bt
           "z_exp_max",           \* expires exactly at bt + L
           "z_box_ok",            \* a box of two transfers
           "z_box_sub_exp_max",   \* a box expiring soon whose sub-transaction expires exactly at bt + L
           "z_two_boxes_ok"}      \* two boxes with different sub-transactions
ZForm == {"z_expired",            \* expired one second before bt
          "z_too_far",            \* expires at bt + L + 1
          "z_chain",              \* signed for another chain id
          "z_toname_long", "z_toname_chars", "z_message_long",
          "z_box_sub_expired",    \* box valid, its sub-transaction expired before bt
          "z_box_sub_too_far",    \* box expires late but within bt + L, its sub-transaction expires far beyond bt + L
          "z_box_sub_chain",      \* sub-transaction signed for another chain id
          "z_box_in_box"}         \* a box inside a box
ZReplay == {"z_replay_anc",         \* Z = X, already executed in ancestor A1 (a replay in scenarios 2 and 3 only)
            "z_box_sub_replay_anc", \* X again, as a sub-transaction of a box
            "z_box_sub_replay_T",   \* T's own first transaction again, as a sub-transaction of a box in the same block
            "z_box_then_sub",       \* a box, and later in the same block one of its sub-transactions on its own
            "z_sub_then_box",       \* the other order
            "z_two_boxes_share",    \* two boxes of one block sharing a sub-transaction
            "z_box_sub_twice"}      \* one box listing the same sub-transaction twice
ZOpt == {"z_box_sub_before_box"}  \* sub-transaction unexpired at bt but expiring before its box: no condition of the property
ZMut == ZValid \cup ZForm \cup ZReplay \cup ZOpt
Mut == HeaderMut \cup BodyMut \cup ZMut
Scenario == 1..3      \* 1: T on genesis; 2: T on the head (height 3, block 1 stable); 3: T forks off below the head
Family == {"hdr", "tx"}
VARIABLES scen, fam, chain     \* chain: hash ids of the offered blocks that were added
vars == <<scen, fam, chain>>
SignerBroken(m, r) ==
  CASE m = "sig_garbage" -> TRUE
    [] r = "outsider" -> TRUE
    [] r = "other" -> TRUE          \* the other deputy is not in turn at T's time and T does not name it as miner
    [] r = "none" -> m \in HeaderMut \cup ZMut  \* the original signature only fits the original header
    [] r = "right" -> m \in {"miner_other", "time_next_slot"}
Breaks(m, r) ==
  (IF SignerBroken(m, r) THEN {"signer"} ELSE {})
  \cup (IF m \in ZForm THEN {"txform"} ELSE {})
  \cup (IF m \in {"z_box_sub_replay_anc", "z_replay_anc"} /\ scen \in {2, 3} THEN {"replay"} ELSE {})
  \cup (IF m \in {"z_box_sub_replay_T", "z_box_then_sub", "z_sub_then_box", "z_two_boxes_share", "z_box_sub_twice"} THEN {"replay"} ELSE {})
  \cup (CASE m = "parent_unknown" -> {"parent"}
          [] m \in {"parent_grand", "height_plus", "height_minus", "height_plus_rebuilt", "height_minus_rebuilt"} -> {"height"}
          [] m \in {"time_before_parent", "time_future", "time_future_rebuilt"} -> {"time"}
          [] m \in {"extra_long", "extra_long_multibyte"} -> {"extra"}   \* 257 bytes; 200 three-byte characters (the bound is in bytes)
          [] m \in {"txs_drop", "txs_dup", "txs_swap", "logs_drop", "tx_root"} -> {"body"}
          [] m \in {"version_root", "log_root", "gas_used", "txs_gas_one", "txs_gas_shift"} -> {"reexec"}
          [] OTHER -> {})
Valid(m, r) == Breaks(m, r) = {}
HashOf(m) == IF m \in HeaderMut \cup ZMut THEN m ELSE "T"      \* re-signing never changes the hash
Init == scen \in Scenario /\ fam \in Family /\ chain = {}
MutOf(f) == IF f = "hdr" THEN HeaderMut \cup BodyMut ELSE ZMut \cup {"none"}
ResignOf(f) == IF f = "hdr" THEN Resign ELSE {"right", "outsider"}
Offer(m, r) == /\ m \in MutOf(fam) /\ r \in ResignOf(fam)
               /\ chain' = IF Valid(m, r) THEN chain \cup {HashOf(m)} ELSE chain
               /\ UNCHANGED <<scen, fam>>
Next == \E m \in Mut, r \in Resign : Offer(m, r)
Spec == Init /\ [][Next]_vars
Accepts(m, r) == Valid(m, r) /\ HashOf(m) \notin chain
\* only valid blocks ever enter; the miner-chosen fields (gas limit, extra data, the second inside the slot) are free
OnlyValid == chain \subseteq {"T", "gas_limit", "time_in_slot", "extra_other"} \cup ZValid \cup ZOpt
                              \cup (IF scen = 1 THEN {"z_replay_anc", "z_box_sub_replay_anc"} ELSE {})
RefusalIsNoop == [][\A m \in Mut, r \in Resign : (Offer(m, r) /\ ~Accepts(m, r)) => UNCHANGED vars]_vars
====
