---- MODULE BlockAccept ----
(* C02: which blocks a node may add.  T is a valid candidate block (parent known, height parent+1, mined at the
   start of its miner's 3-second slot, two transfers) offered in one of three chain situations; every other
   offered block is T with ONE corruption, optionally re-signed.  Breaks(m, r) names the conditions of the
   property the offered block violates; it is valid iff it violates none.  A valid block whose hash is not
   in the chain yet is added; anything else is refused and refusal changes nothing.
     conditions: parent (known), height (= parent+1), time (not before parent, not ahead of the clock),
                 extra (<= 256 bytes), signer (signed by the deputy whose slot it is, who is its miner address),
                 body (tx list and change logs are the ones the header commits to), reexec (roots and gas figures
                 reproduce) *)
EXTENDS Naturals, FiniteSets, TLC
Resign == {"none", "right", "other", "outsider"}
\* corruptions that change the header hash (so the original signature no longer matches); *_rebuilt = the whole block
\* re-executed by the real assembler with the corrupted field, so that all roots are consistent with it
HeaderMut == {"parent_unknown", "parent_grand", "miner_other", "version_root", "log_root", "tx_root", "gas_used",
              "gas_limit", "height_plus", "height_minus", "height_plus_rebuilt", "height_minus_rebuilt", "time_before_parent", "time_in_slot", "time_next_slot",
              "time_future", "time_future_rebuilt", "extra_long", "extra_other"}
\* corruptions that leave the header hash alone
BodyMut == {"none", "sig_reencoded", "sig_garbage", "txs_drop", "txs_dup", "txs_swap", "logs_drop", "confirm_garbage"}
Mut == HeaderMut \cup BodyMut
Scenario == 1..3      \* 1: T on genesis; 2: T on the head (height 3, block 1 stable); 3: T forks off below the head
VARIABLES scen, chain     \* chain: hash ids of the offered blocks that were added
vars == <<scen, chain>>
SignerBroken(m, r) ==
  CASE m = "sig_garbage" -> TRUE
    [] r = "outsider" -> TRUE
    [] r = "other" -> TRUE          \* the other deputy is not in turn at T's time and T does not name it as miner
    [] r = "none" -> m \in HeaderMut  \* the original signature only fits the original header
    [] r = "right" -> m \in {"miner_other", "time_next_slot"}
Breaks(m, r) ==
  (IF SignerBroken(m, r) THEN {"signer"} ELSE {})
  \cup (CASE m = "parent_unknown" -> {"parent"}
          [] m \in {"parent_grand", "height_plus", "height_minus", "height_plus_rebuilt", "height_minus_rebuilt"} -> {"height"}
          [] m \in {"time_before_parent", "time_future", "time_future_rebuilt"} -> {"time"}
          [] m = "extra_long" -> {"extra"}
          [] m \in {"txs_drop", "txs_dup", "txs_swap", "logs_drop", "tx_root"} -> {"body"}
          [] m \in {"version_root", "log_root", "gas_used"} -> {"reexec"}
          [] OTHER -> {})
Valid(m, r) == Breaks(m, r) = {}
HashOf(m) == IF m \in HeaderMut THEN m ELSE "T"      \* re-signing never changes the hash
Init == scen \in Scenario /\ chain = {}
Offer(m, r) == /\ chain' = IF Valid(m, r) THEN chain \cup {HashOf(m)} ELSE chain
               /\ UNCHANGED scen
Next == \E m \in Mut, r \in Resign : Offer(m, r)
Spec == Init /\ [][Next]_vars
Accepts(m, r) == Valid(m, r) /\ HashOf(m) \notin chain
\* only valid blocks ever enter; the miner-chosen fields (gas limit, extra data, the second inside the slot) are free
OnlyValid == chain \subseteq {"T", "gas_limit", "time_in_slot", "extra_other"}
RefusalIsNoop == [][\A m \in Mut, r \in Resign : (Offer(m, r) /\ ~Accepts(m, r)) => UNCHANGED vars]_vars
====
