SPECIFICATION Spec
CONSTANTS MaxLen = 5
INVARIANTS InvDecEnc InvEncDec InvIntCanon InvScanAgrees InvTypeOK
CHECK_DEADLOCK FALSE
