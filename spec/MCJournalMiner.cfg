SPECIFICATION Spec
CONSTANTS GasLimits <- McLimits
 Gas <- McGas
 MinGas = 21000
 MaxCands = 2
 Offered <- Classes
 Dv <- NoDev
INVARIANTS NoTraceOfDiscarded Classified
CHECK_DEADLOCK FALSE
