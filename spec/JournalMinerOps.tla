---- MODULE JournalMinerOps ----
(* C07, miner side: the pure model of TxProcessor.ApplyTxs walking a candidate list, shared by the design
   specification (JournalMiner.tla) and the trace specification (TraceJournalMiner.tla).

   For every candidate the miner takes a snapshot, applies the transaction and, when that fails, rolls back to the
   snapshot and drops the candidate: reported "invalid", or silently left for a later block when the failure was
   "block gas limit reached".  A transaction buys its whole gas limit from the block's gas pool before it does
   anything else; a box transaction buys its own gas and then runs its sub-transactions one after the other, each
   buying gas from the SAME pool, and fails as a whole when one of them fails - after the box's own purchase and the
   complete effects of the sub-transactions in front of it.
   Every candidate class is one concrete signed transaction of harness/adapters/journal/miner.go:
     pay pay2 pay3    transfers by the founder F, by a1, by a2                               always succeed
     give             F transfers to the contract K without call data (K gets a balance log) always succeeds
     asset            a1 creates an asset                                                     always succeeds
     badsig           a transfer signed with a foreign key        fails before anything is written
     poor             a transfer from an account without funds    fails before anything is written (cannot buy gas)
     over             a2 transfers more than it owns              fails AFTER its gas was bought
     boxpay           box [transfer by F, transfer by a1]          succeeds if the block gas suffices for all of it
     boxbad           box [transfer, foreign signature]            fails after the box bought gas and the transfer ran
     boxover          box [transfer, over-spending transfer]       ... and after the second one bought gas too
     boxasset         box [a1 creates an asset, foreign signature]          a reverted asset-code creation
     boxstore         box [a1 calls K which stores to a fresh slot, ...]    a reverted storage-key creation
     boxissue         box [a1 issues its asset to a2, ...]                  reverted asset-id and equity creations
     boxfreeze        box [a1 sets profile key "freeze" of its asset, ...]  a reverted profile-key creation
   Gas limits equal the gas the transaction uses when it succeeds (calibrated by the harness on the real processor
   and logged), so a packaged transaction takes exactly its limit out of the pool.

   Dv = {} is what the property demands.  Dev_NoRevertWhenBlockFull (negative control) is a miner that does not roll
   back when the failure was "block gas limit reached". *)
EXTENDS Naturals, Sequences, FiniteSets
Boxes == [boxpay |-> <<"bp1", "bp2">>, boxbad |-> <<"bb1", "xbad1">>, boxover |-> <<"bo1", "xover">>,
          boxasset |-> <<"xasset", "xbad2">>, boxstore |-> <<"xstore", "xbad3">>, boxissue |-> <<"xissue", "xbad4">>,
          boxfreeze |-> <<"xfreeze", "xbad5">>]
Plain == {"pay", "pay2", "pay3", "give", "asset", "badsig", "poor", "over"}
Classes == Plain \cup DOMAIN Boxes
\* how a single transaction ends: "ok", "pre" (refused before anything is written), "post" (fails after it bought gas)
Kind(t) == CASE t \in {"badsig", "poor", "xbad1", "xbad2", "xbad3", "xbad4", "xbad5"} -> "pre"
             [] t \in {"over", "xover"} -> "post"
             [] OTHER -> "ok"
\* a transaction on a pool holding gp: outcome "sel" / "inv" / "full", the pool afterwards and the writes performed
\* (tokens <<t, "gas">>: gas bought, <<t, "eff">>: effect applied)
RunAtom(t, gp, gas) ==
  IF Kind(t) = "pre" THEN [out |-> "inv", gp |-> gp, tok |-> <<>>]
  ELSE IF gp < gas[t] THEN [out |-> "full", gp |-> gp, tok |-> <<>>]
  ELSE IF Kind(t) = "post" THEN [out |-> "inv", gp |-> gp - gas[t], tok |-> << <<t, "gas">> >>]
  ELSE [out |-> "sel", gp |-> gp - gas[t], tok |-> << <<t, "gas">>, <<t, "eff">> >>]
RECURSIVE RunSubs(_, _, _, _)
RunSubs(ss, gp, gas, tok) ==
  IF ss = <<>> THEN [out |-> "sel", gp |-> gp, tok |-> tok]
  ELSE LET r == RunAtom(Head(ss), gp, gas) IN
       IF r.out = "sel" THEN RunSubs(Tail(ss), r.gp, gas, tok \o r.tok)
       ELSE [out |-> r.out, gp |-> r.gp, tok |-> tok \o r.tok]
Run(c, gp, gas) ==
  IF c \in DOMAIN Boxes
  THEN IF gp < gas[c] THEN [out |-> "full", gp |-> gp, tok |-> <<>>]
       ELSE LET r == RunSubs(Boxes[c], gp - gas[c], gas, << <<c, "gas">> >>) IN
            IF r.out = "sel" THEN [r EXCEPT !.tok = Append(@, <<c, "fee">>)] ELSE r
  ELSE RunAtom(c, gp, gas)
NoResult == [sel |-> <<>>, inv |-> <<>>, tok |-> <<>>]
RECURSIVE Walk(_, _, _, _, _, _, _)
\* ApplyTxs: the candidates cs in order on a pool holding gp; the walk ends when the pool cannot even hold a plain
\* transfer (mingas).  restore: whether the gas a dropped candidate bought goes back into the pool (the code base keeps
\* it out; the property does not care, so the trace specification accepts both).
Walk(cs, gp, gas, mingas, restore, Dv, acc) ==
  IF cs = <<>> \/ gp < mingas THEN acc
  ELSE LET c == Head(cs)
           r == Run(c, gp, gas)
       IN IF r.out = "sel"
          THEN Walk(Tail(cs), r.gp, gas, mingas, restore, Dv, [acc EXCEPT !.sel = Append(@, c), !.tok = @ \o r.tok])
          ELSE LET keep == r.out = "full" /\ "Dev_NoRevertWhenBlockFull" \in Dv IN
               Walk(Tail(cs), IF restore THEN gp ELSE r.gp, gas, mingas, restore, Dv,
                    [acc EXCEPT !.inv = IF r.out = "inv" THEN Append(@, c) ELSE @,
                                !.tok = IF keep THEN @ \o r.tok ELSE @])
\* the trie caches in which a dropped box leaves an empty entry behind when its first sub-transaction created
\* something (JournalOps ghost pairs; account names of the harness universe)
SubGhosts(t) == CASE t = "xstore"  -> {<<"K", "rs">>}
                  [] t = "xissue"  -> {<<"a2", "req">>, <<"a2", "rai">>}
                  [] t = "xfreeze" -> {<<"a1", "afrkey">>}
                  [] OTHER -> {}
GhostsOfDropped(cs, sel) ==
  UNION {UNION {SubGhosts(Boxes[cs[i]][j]) : j \in 1..Len(Boxes[cs[i]])} :
           i \in {k \in 1..Len(cs) : cs[k] \in DOMAIN Boxes /\ \A m \in 1..Len(sel) : sel[m] # cs[k]}}
====
