---- MODULE MCTxGuard ----
EXTENDS TxGuard
\* timestamps are offsets (seconds) from an epoch that is a multiple of 60; clusters around 0 and around the 1800 s lifetime,
\* on a 30 s grid so that both halves of a 60 s bucket occur
McTimesQ == {1830, 1860, 3630, 3660, 3690, 3720}
McTimesT == {1830, 1860, 1890, 3600, 3630, 3660, 3690, 3720, 3750}
McRootQ == {1830}
McRootT == {1830, 1860}
E(t, b, u) == [x \in Tx |-> IF x \in {"t", "t2"} THEN t ELSE IF x \in Boxes THEN b ELSE u]
\* t legal in blocks timed [1830, 3630]; box b a little shorter; u later
McExpQ == {E(3630, 3630, 3690)}
McExpT == {E(3630, 3630, 3690), E(3630, 3600, 3660), E(3660, 3630, 3720)}
McMenu == {{}, {"t"}, {"t2"}, {"b"}, {"u"}, {"t", "u"}}
McQMenu == {{"t"}, {"t2"}, {"b"}, {"u"}, {"t", "u"}, {"b", "u"}}
\* carrier encodings: the same content in boxes whose payloads are written differently / in another box; saved and asked in every encoding
McTimesC == {1830}
McMenuC == {{}, {"t"}, {"b"}, {"w"}}
McQMenuC == {{"t"}, {"b"}, {"w"}, {"u"}}
McTimesCT == {1830, 3660}
McMenuCT == {{}, {"t"}, {"b"}, {"w"}, {"b", "u"}}
McQMenuCT == {{"t"}, {"t2"}, {"b"}, {"w"}, {"u"}}
ASSUME \A e \in McExpT : e["b"] <= e["t"] /\ e["t"] = e["t2"] /\ e["w"] = e["b"]
====
