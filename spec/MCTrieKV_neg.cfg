SPECIFICATION Spec
CONSTANTS Keys <- Keys4
 Vals = {"s", "L"}
 Path <- McPath
 Variants <- VarNeg
 MaxOld = 0
 ReopenModes = {"same"}
 Ticking = FALSE
 NH = 1
 Vias = {"delete", "empty"}
 Flushes = {FALSE, TRUE}
 Merge = FALSE
INVARIANTS InsertKeepsCanonical DeleteKeepsCanonical
CHECK_DEADLOCK FALSE
