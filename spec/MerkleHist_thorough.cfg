SPECIFICATION Spec
CONSTANTS Full <- FullThorough
 Cap = 7
 BufCap = 4
 Slots = 1
 InPlace = FALSE
VIEW View
INVARIANTS ListKept ResultPure HandlesStable
CHECK_DEADLOCK FALSE
