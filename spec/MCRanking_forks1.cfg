SPECIFICATION Spec
CONSTANTS NC = 3
 K = 2
 MaxVotes = 1
 MaxLive = 3
 MaxSteps = 0
 RestartAnywhere = FALSE
 Touch = {0}
 Dev = {}
INVARIANTS TypeOK TopIsFullSort
PROPERTIES RestartKeepsTop
CHECK_DEADLOCK FALSE
