SPECIFICATION Spec
CONSTANTS NC = 3
 K = 2
 MaxVotes = 1
 MaxLive = 3
 MaxSteps = 0
 RestartAnywhere = FALSE
 Touch = {0}
 VMaps = {100}
 Persist = FALSE
 MaxChg = 3
 Dev = {}
INVARIANTS TypeOK TopIsFullSort FileOK
PROPERTIES RestartKeepsTop
CHECK_DEADLOCK FALSE
