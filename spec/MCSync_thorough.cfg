SPECIFICATION Spec
CONSTANTS NB = 4
 Confs <- McConfs3
 NT = 3
 MaxDup = 2
 Races = TRUE
 BugAddMiddle = FALSE
 BugTxLoopVar = FALSE
 BugConfirmRace = FALSE
 MaxBatch = 0
 NBatch = 0
 BugBatchBreak = FALSE
INVARIANTS TypeOK ChainLinear Converges CacheSorted CacheKeepsUntilParent CacheOnlyWaiting ConfirmsKept TxOnce
PROPERTY Forward
CHECK_DEADLOCK FALSE
