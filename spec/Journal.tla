---- MODULE Journal ----
(* C07 design specification: the change journal of chain/account.
   Every SafeAccount setter pushes a journal entry holding the old value and a provisional per-(account, log type)
   version, then writes; Snapshot pushes a revision (id, journal length); RevertToSnapshot(id) walks the journal
   backwards undoing every entry and drops the revisions above.  `saved` is the history variable that makes
   "restores exactly" checkable: Revert must re-establish the copy taken by the Snapshot that created the revision.
   Seal finishes the block (MergeChangeLogs, Finalise: the roots of every account that keeps a published log are
   recomputed from the trie contents and root logs are published, Save).  `clean` / `cleanpub` are the history variables
   that make "reverted work leaves no trace" checkable beyond the getters: the sealed block - roots and published
   logs included - must be the block of a run that executed only the surviving journal entries.  `ghost` records what
   a revert leaves behind in the caches of the real code (empty dirty entries, dirty code); the design (Dv = {}) never
   looks at it, the deviations that reproduce /repo do.
   The behaviours of this module (one block executed on top of the committed state `base`) are replayed on a real
   account.Manager; TraceJournal.tla validates what the real code returned.
   Dv = {} is the design the property demands; a non-empty Dv is a negative control reproducing /repo's code. *)
EXTENDS JournalOps
CONSTANTS Acct,       \* account names
          KindsOf,    \* [Acct -> set of setter kinds transactions can issue on that account]
          BaseSet,    \* set of committed parent states [Acct -> account record]
          MaxSteps, MaxSnap, FreeVals, WithSeal,
          MaxRevs,    \* snapshots taken in one behaviour (MaxSnap bounds the live ones)
          MaxOuter,   \* setter calls made while no revision is live ...
          MaxInner,   \* ... and while one is: shapes the generator ("write, Snapshot, create, Revert, write, Seal")
          Dv
Z == "Z"              \* the zero root
VARIABLES st,         \* [Acct -> account record]              the live accounts (Manager.accountCache)
          base,       \* the committed state the block runs on
          journal,    \* Seq([a, k, old, new, n])              LogProcessor.changeLogs
          ver,        \* [Acct -> [log type -> Nat]]           Account.newestRecords (never decremented)
          revs,       \* Seq([id, idx])                        LogProcessor.revisions
          nextId,     \*                                       LogProcessor.nextRevisionId
          saved,      \* history: saved[id + 1] = st when Snapshot returned id
          dead,       \* RevertToSnapshot panicked
          sealed,     \* the block is finished: logs merged and published, accounts finalised
          redo,       \* the state RebuildAll derives from the published logs and the parent state
          ghost,      \* {<<account, root>>}: trie caches holding an empty dirty entry; {<<account, "code">>}: dirty code
          saveerr,    \* Manager.Save of the sealed block failed
          clean,      \* history: the sealed state of a run that executed ONLY the surviving journal entries
          pub,        \* [Acct -> [kinds, roots]]  what the sealed block publishes (merged logs, changed roots)
          cleanpub,   \* ... and what the block of that other run publishes
          cnt,        \* <<outer, inner>> setter calls so far (counted only when MaxOuter / MaxInner bound anything)
          steps
vars == <<cnt, st, base, journal, ver, revs, nextId, saved, dead, sealed, redo, ghost, saveerr, clean, pub, cleanpub, steps>>

Types == {LogType(k) : k \in UNION {KindsOf[a] : a \in Acct}}
Init == /\ base \in BaseSet /\ st = base
        /\ journal = <<>> /\ revs = <<>> /\ nextId = 0 /\ saved = <<>> /\ dead = FALSE /\ steps = 0
        /\ cnt = <<0, 0>>
        /\ sealed = FALSE /\ redo = <<>> /\ ghost = {} /\ saveerr = FALSE /\ clean = <<>> /\ pub = <<>> /\ cleanpub = <<>>
        /\ ver = [a \in Acct |-> [t \in Types |-> 0]]
Step == ~dead /\ ~sealed /\ steps < MaxSteps /\ steps' = steps + 1

\* value domains of the setter kinds and the one value the enumeration writes next (FreeVals: any value)
Dom(k) == CASE k \in {"bal", "s1", "s2", "asup", "votes"} -> 0..2
            [] k = "eq"   -> 1..2
            [] k = "code" -> {"c1", "c2"}
            [] k = "afr"  -> {"", "true", "false"}
            [] k = "p1"   -> {"", "true", "false"}
            [] k = "p2"   -> {"h1", "h2"}
            [] k = "aid"  -> {"m1", "m2"}
            [] k = "vf"   -> {"", "c", "u"}
            [] k = "sig"  -> {"", "g1", "g2"}
            [] k = "cand" -> {<<"true", "h1">>, <<"false", "h2">>}
            [] OTHER      -> {TRUE}                    \* sui, ev, ax carry no value
Cyc(x, s) == IF x = s[1] THEN s[2] ELSE IF x = s[2] THEN s[3] ELSE s[1]
NextVal(r, k) == CASE k \in {"bal", "s1", "s2", "asup", "votes"} -> (r[k] + 1) % 3
                   [] k = "eq"   -> IF r.eq = 1 THEN 2 ELSE 1
                   [] k = "code" -> IF r.code = "c1" THEN "c2" ELSE "c1"
                   [] k \in {"afr", "p1"} -> Cyc(r[k], <<"", "true", "false">>)
                   [] k = "p2"   -> IF r.p2 = "h1" THEN "h2" ELSE "h1"
                   [] k = "aid"  -> IF r.aid = "m1" THEN "m2" ELSE "m1"
                   [] k = "vf"   -> Cyc(r.vf, <<"", "c", "u">>)
                   [] k = "sig"  -> Cyc(r.sig, <<"", "g1", "g2">>)
                   [] k = "cand" -> IF r.p1 = "true" THEN <<"false", "h2">> ELSE <<"true", "h1">>
                   [] OTHER      -> TRUE
\* what transactions can produce: self-destruct once (opSuicide), an asset code is created once (its code is the
\* hash of the creating transaction), supply/profile only of an existing asset
Can(r, k) == CASE k = "sui" -> ~r.sui
               [] k = "ax"  -> ~r.ax
               [] k \in {"asup", "afr"} -> r.ax
               [] OTHER -> TRUE

Set(a, k, v) ==
  /\ Step /\ k \in KindsOf[a] /\ Can(st[a], k)
  /\ IF MaxOuter >= MaxSteps /\ MaxInner >= MaxSteps THEN cnt' = cnt
     ELSE IF revs = <<>> THEN cnt[1] < MaxOuter /\ cnt' = <<cnt[1] + 1, cnt[2]>>
     ELSE cnt[2] < MaxInner /\ cnt' = <<cnt[1], cnt[2] + 1>>
  /\ FreeVals \/ v = NextVal(st[a], k)
  /\ ver' = [ver EXCEPT ![a][LogType(k)] = @ + 1]
  /\ journal' = Append(journal, [a |-> a, k |-> k, old |-> OldOf(st[a], k), new |-> v, n |-> ver[a][LogType(k)] + 1])
  /\ st' = [st EXCEPT ![a] = Effect(@, k, v, Z)]
  /\ ghost' = GhostsAfterSet(ghost, a, k, v)
  /\ UNCHANGED <<base, revs, nextId, saved, dead, sealed, redo, saveerr, clean, pub, cleanpub>>

Snapshot ==
  /\ Step /\ Len(revs) < MaxSnap /\ nextId < MaxRevs
  /\ revs' = Append(revs, [id |-> nextId, idx |-> Len(journal)])
  /\ saved' = Append(saved, st) /\ nextId' = nextId + 1
  /\ UNCHANGED <<st, base, journal, ver, dead, sealed, redo, ghost, saveerr, clean, pub, cleanpub, cnt>>

Revert(i) ==
  /\ Step /\ i \in 1..Len(revs)
  /\ IF Panics(journal, revs[i].idx, Dv)
     THEN dead' = TRUE /\ UNCHANGED <<st, journal, revs, ghost>>
     ELSE /\ st' = UndoFrom(st, journal, revs[i].idx, base, Z, Dv)
          /\ ghost' = ghost \cup GhostsOf(journal, revs[i].idx)
          /\ journal' = SubSeq(journal, 1, revs[i].idx)
          /\ revs' = SubSeq(revs, 1, i - 1)
          /\ dead' = FALSE
  /\ UNCHANGED <<base, ver, nextId, saved, sealed, redo, saveerr, clean, pub, cleanpub, cnt>>

\* the block is finished (MergeChangeLogs, Finalise: the roots of every account that keeps a published log are
\* recomputed, changed roots are published); a node that only has the parent state and the published logs replays
\* them (RebuildAll, Finalise); `clean` is the block of a miner that executed the surviving entries only
Seal ==
  /\ ~dead /\ ~sealed /\ WithSeal
  /\ sealed' = TRUE
  /\ st' = Finalised(st, journal, Z, ghost, Dv)
  /\ redo' = Finalised(Redone(base, journal, Z, Dv), journal, Z, {}, Dv)
  /\ clean' = Finalised(Executed(base, journal, Z), journal, Z, {}, Dv)
  /\ pub' = [a \in Acct |-> PubOf(st', base, journal, a, Z, Dv)]
  /\ cleanpub' = [a \in Acct |-> PubOf(clean', base, journal, a, Z, Dv)]
  /\ saveerr' = SaveFails(st', journal, Z, ghost, Dv)
  /\ UNCHANGED <<base, journal, ver, revs, nextId, saved, dead, ghost, steps, cnt>>

Next == \/ \E a \in Acct, k \in UNION {KindsOf[x] : x \in Acct} : \E v \in Dom(k) : Set(a, k, v)
        \/ Snapshot
        \/ \E i \in 1..MaxSnap : Revert(i)
        \/ Seal
Spec == Init /\ [][Next]_vars

\* ---- the clauses of C07 (revert part) ----
\* a revert restores exactly the state saved when that snapshot was taken, for any nesting: whatever revision is
\* live, undoing the journal down to it (what Revert does) yields the copy saved for it
UndoMatchesSaved == ~dead /\ ~sealed => \A i \in 1..Len(revs) : UndoFrom(st, journal, revs[i].idx, base, Z, Dv) = saved[revs[i].id + 1]
\* ... and never fails
NoPanic == ~dead
\* revisions are well formed: ids increase, indices are monotone and within the journal
RevsOK == /\ \A i \in 1..Len(revs) : revs[i].idx <= Len(journal) /\ revs[i].id < nextId
          /\ \A i, j \in 1..Len(revs) : i < j => revs[i].id < revs[j].id /\ revs[i].idx <= revs[j].idx
\* a discarded transaction leaves no trace: undoing the whole journal yields the committed state
\* (events: the journal holds the block's events; the count in the account is part of the record)
DiscardAllIsBase == ~dead /\ ~sealed => UndoFrom(st, journal, 0, base, Z, Dv) = base
\* ---- the clause of C07 about redo: replaying the published logs on the parent state gives the executed state
RedoEqualsExec == sealed => redo = st
\* ---- the clause of C07 about discarded work: whatever was snapshotted, written and reverted on the way, the sealed
\* block - every attribute, all roots, the published logs and the changed roots - is the block of a run that executed
\* only the surviving writes (a reverted creation must not come back when the tries are flushed)
NoTraceOfReverted == sealed => st = clean /\ pub = cleanpub
\* ... the sealed block can be saved, and what a node reads back from the saved block is the executed state (events and
\* the self-destruct flag are not persisted); on the design that is Persisted(st) by definition, the trace specification
\* checks it on real re-reads
SaveSucceeds == ~saveerr
====
