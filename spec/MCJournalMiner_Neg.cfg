SPECIFICATION Spec
CONSTANTS GasLimits <- McLimits
 Gas <- McGas
 MinGas = 21000
 MaxCands = 2
 Offered <- OfferedNeg
 Dv <- McNeg
INVARIANTS NoTraceOfDiscarded Classified
CHECK_DEADLOCK FALSE
