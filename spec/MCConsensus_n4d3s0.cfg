SPECIFICATION Spec
CONSTANTS NB = 4
 ND = 3
 Self = 0
 Packets <- McPackets
INVARIANTS QuorumOK HeadOK TreeOK StableChainKept
PROPERTY StableForward
CHECK_DEADLOCK FALSE
