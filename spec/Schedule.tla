---- MODULE Schedule ----
(* C13, design side: TLC enumerates every parameter tuple (as initial states) and checks that the
   transcribed code agrees with the declarative rotation.  There are no transitions. *)
EXTENDS ScheduleOps, TLC
CONSTANTS MaxN, MaxT, TPS, Rounds
VARIABLES n, special, pr, tr, T, now
vars == <<n, special, pr, tr, T, now>>
Slot == T * TPS
Init == /\ n \in 1..MaxN /\ special \in BOOLEAN
        /\ pr \in 0..n /\ tr \in 0..(n-1)
        /\ (pr = n => special)               \* a non-deputy parent miner only occurs at a term change / height 1
        /\ T \in 1..MaxT
        /\ now \in 0..(Rounds * n * T * TPS)
Next == UNCHANGED vars
Spec == Init /\ [][Next]_vars

D == Distance(n, special, pr, tr)
WF == WindowFrom(n, D, Slot, now)
WT == WF + Slot
Horizon == Rounds * n * Slot + n * Slot

\* exactly one deputy is entitled at every instant, and the verifier's choice is that one
ExactlyOne == \A t \in 0..Horizon : Entitled(n, special, pr, Slot, t) \in 0..(n-1)
AgreesWithSpec == \A t \in 0..Horizon : CorrectMiner(n, special, pr, Slot, t) = Entitled(n, special, pr, Slot, t)
\* rotation: consecutive slots go to consecutive ranks, starting after the parent's miner (rank 0 when special)
Rotation == /\ Entitled(n, special, pr, Slot, 0) = Start(n, special, pr)
            /\ \A t \in 0..Horizon : Entitled(n, special, pr, Slot, t + Slot) = (Entitled(n, special, pr, Slot, t) + 1) % n
DistanceRoundTrip == D \in 1..n /\ ByDistance(n, special, pr, D) = tr
\* the window a deputy computes is its earliest slot that has not ended yet
WindowIsMine == \A t \in WF..(WT - 1) : Entitled(n, special, pr, Slot, t) = tr
WindowOpen == WT > now
WindowEarliest == \A t \in now..(WF - 1) : Entitled(n, special, pr, Slot, t) # tr
\* at every instant inside the window a header stamped with the whole second verifies for this deputy and no other
StampVerifies == \A t \in WF..(WT - 1) : t >= now => CorrectMiner(n, special, pr, Slot, Stamp(t, TPS)) = tr
\* the instant the miner wakes up lies inside its own window (block interval shorter than the slot)
WakeInWindow == \A bi \in 0..(Slot - 1) :
                  LET w == WakeUp(n, D, Slot, bi, now) IN w >= now /\ Entitled(n, special, pr, Slot, w) = tr
====
