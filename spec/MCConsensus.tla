---- MODULE MCConsensus ----
EXTENDS Consensus
\* packets: every single signature (both encodings, and the outsider), a signer with its own re-encoding,
\* two deputies (second one re-encoded), a deputy together with the outsider
McPackets == {{<<d, v>>} : d \in 1..(ND + 1), v \in {0, 1}}
             \cup {{<<d, 0>>, <<d, 1>>} : d \in 1..ND}
             \cup {{<<d, 0>>, <<e, 1>>} : d \in 1..ND, e \in 1..ND}
             \cup {{<<1, 0>>, <<ND + 1, 0>>}}
====
