---- MODULE MCConsensus ----
EXTENDS Consensus
\* packets: every single signature (both encodings, and the outsider), a signer with its own re-encoding,
\* two deputies (second one re-encoded), a deputy together with the outsider
McPackets == {{<<d, v>>} : d \in 1..(ND + 1), v \in {0, 1}}
             \cup {{<<d, 0>>, <<d, 1>>} : d \in 1..ND}
             \cup {{<<d, 0>>, <<e, 1>>} : d \in 1..ND, e \in 1..ND}
             \cup {{<<1, 0>>, <<ND + 1, 0>>}}
\* four blocks with one confirm packet per deputy: every tree of four blocks (a fork hanging on an intermediate block of a
\* multi-height stable jump needs four), exhaustively
McPacketsOne == {{<<d, 0>>} : d \in 1..ND}
McPoolTwo == {1}                \* (one miner keeps the four-block graph replayable: 29k transitions)
\* ---- term configurations: TermDuration = 4, InterimDuration = 1: snapshot block at height 4, the next term signs
\* from height 6; the stabilised prefix is heights 1..4, so the universe holds blocks of heights 5 (old term), 6, 7
McOne == 1
McSnap4 == 4
McStart6 == 6
McPL4 == 4
McPL3 == 3                      \* prefix 1..3: the snapshot block itself is inside the universe (heights 4, 5, 6)
McNewGrow == {2, 3, 4, 5}       \* with ND = 3: {1,2,3} -> {2,3,4,5}: 1 leaves, 4 and 5 join, threshold 2 -> 3
McNewShrink == {3, 5}           \* with ND = 4: {1,2,3,4} -> {3,5}: 1, 2, 4 leave, 5 joins, threshold 3 -> 2
OldOnly == DepOld \ DepNew
NewOnly == DepNew \ DepOld
Both == DepOld \cap DepNew
\* packets across the boundary: every single signature of every identity and of the outsider, re-encodings, pairs that mix
\* an old-term-only or new-term-only deputy with a deputy of the other classes, two deputies of both terms,
\* and triples old-only + new-only + both
McTermPackets == {{<<d, 0>>} : d \in Ident \cup {Outsider}}
                 \cup {{<<d, 1>>} : d \in Ident}
                 \cup {{<<d, 0>>, <<e, 1>>} : d \in OldOnly, e \in Both \cup NewOnly}
                 \cup {{<<d, 0>>, <<e, 1>>} : d \in NewOnly, e \in Both \cup OldOnly}
                 \cup {{<<d, 0>>, <<e, 0>>} : d \in Both, e \in Both}
                 \cup {{<<o, 0>>, <<n, 0>>, <<d, 1>>} : o \in OldOnly, n \in NewOnly, d \in Both}
\* the replayed term configurations: one miner per class (old-only, both, new-only) and a packet of every kind
McPoolGrow == {1, 2, 4}
McPoolShrink == {1, 3, 5}
McGrowPackets == {{<<d, 0>>} : d \in 1..6} \cup {{<<1, 1>>}, {<<2, 1>>}, {<<4, 1>>}}
                 \cup {{<<1, 0>>, <<2, 1>>}, {<<4, 0>>, <<3, 1>>}, {<<1, 0>>, <<4, 1>>}, {<<4, 0>>, <<5, 1>>}}
                 \cup {{<<1, 0>>, <<4, 0>>, <<2, 1>>}}
McShrinkPackets == {{<<d, 0>>} : d \in 1..6} \cup {{<<1, 1>>}, {<<3, 1>>}, {<<5, 1>>}}
                   \cup {{<<1, 0>>, <<3, 1>>}, {<<5, 0>>, <<3, 1>>}, {<<1, 0>>, <<5, 1>>}, {<<1, 0>>, <<2, 1>>}}
                   \cup {{<<1, 0>>, <<5, 0>>, <<3, 1>>}}
\* the quick-tier variant of the shrinking configuration: the blocks of height 5 are mined by node 3, 11 packets
McPoolShrinkQ == {3, 5}
McShrinkPacketsQ == {{<<d, 0>>} : d \in 1..6} \cup {{<<3, 1>>}}
                    \cup {{<<1, 0>>, <<3, 1>>}, {<<5, 0>>, <<3, 1>>}, {<<1, 0>>, <<2, 1>>}}
                    \cup {{<<1, 0>>, <<5, 0>>, <<3, 1>>}}
\* ---- the SECOND term change (TermDuration 4, InterimDuration 1): genesis {1,2,3}, the snapshot block at height 4 elects
\* {2,3,4}, the one at height 8 elects {3,4,5,6}, which signs from height 10 (the general branch of
\* GetSignerTermIndexByHeight, a third record in the deputy manager's term list).  Prefix 1..8, universe heights 9, 10, 11.
\* Node 1 is a former deputy (of neither term), 2 old-term only, 3 and 4 both, 5 and 6 new-term only, 7 the outsider.
McSnap8 == 8
McStart10 == 10
McPL8 == 8
McT1 == {2, 3, 4}
McT2 == {3, 4, 5, 6}
McPoolU == {2, 3, 5}
McUPackets == {{<<d, 0>>} : d \in 1..7} \cup {{<<2, 1>>}, {<<3, 1>>}, {<<5, 1>>}}
              \cup {{<<2, 0>>, <<3, 1>>}, {<<5, 0>>, <<4, 1>>}, {<<2, 0>>, <<5, 1>>}, {<<5, 0>>, <<6, 1>>}, {<<1, 0>>, <<3, 1>>}}
              \cup {{<<2, 0>>, <<5, 0>>, <<3, 1>>}}
====
