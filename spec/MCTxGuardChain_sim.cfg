SPECIFICATION Spec
CONSTANTS Times <- McTimes
 ExpChoices <- McExp
 OfferMenu <- McMenuX
 MaxBlocks = 5
 MaxBoots = 1
 DupCheck = TRUE
 PayloadIdentity = TRUE
 Encs = {"c", "h", "k", "g", "x"}
 CarrierIdentity = FALSE
INVARIANTS AtMostOnce InWindow ForkFree CarrierFree
CHECK_DEADLOCK FALSE
