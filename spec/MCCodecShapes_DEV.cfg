SPECIFICATION Spec
CONSTANTS Devs = {"Dev_EmptyPayloadDecodedUntyped"}
INVARIANTS InvRoundTrip InvInjective InvClass InvLogShapes
CHECK_DEADLOCK FALSE
