SPECIFICATION Spec
CONSTANTS Times <- McTimesC
 ExpChoices <- McExp
 OfferMenu <- McMenuR
 MaxBlocks = 3
 MaxBoots = 1
 DupCheck = TRUE
 PayloadIdentity = TRUE
 Encs = {"c", "g"}
 CarrierIdentity = FALSE
INVARIANTS AtMostOnce InWindow ForkFree CarrierFree
CHECK_DEADLOCK FALSE
