---- MODULE Network ----
(* Beyond the listed properties: ND deputy nodes, each running the node-local engine of Consensus.tla, exchanging
   blocks and confirm signatures over a network that may delay, reorder and drop messages (no Byzantine node:
   every deputy follows Confirmer.needConfirm, the "voting lock").  Blocks are 1..NB with a fixed parent function
   and miner assignment chosen in Init (the mining schedule is C13's subject; here any deputy may publish the
   blocks assigned to it, in any order, once it knows the parent).  conf[n][b] = deputies whose confirm for b node
   n has stored; sig[d] = the last block deputy d signed (its own lastSig).
   Question asked of TLC: can two nodes ever hold CONFLICTING stable blocks? *)
EXTENDS Naturals, FiniteSets, Sequences, TLC
CONSTANTS NB, ND
Block == 1..NB
G == 0
Dep == 1..ND
Q == (2 * ND + 2) \div 3
VARIABLES parent, miner,
          known,    \* known[n]  blocks node n has stored
          conf,     \* conf[n][b]
          stable,   \* stable[n]
          lastSig,  \* lastSig[n]
          head,     \* head[n]   the block node n mines on (ForkManager)
          signed    \* signed[b]: deputies that have ever signed b (messages in flight forever: any subset may arrive anywhere)
vars == <<parent, miner, known, conf, stable, lastSig, head, signed>>
RECURSIVE Anc(_)
Anc(b) == IF b = G THEN {G} ELSE {b} \cup Anc(parent[b])
H(b) == Cardinality(Anc(b)) - 1
Enough(c, b) == Cardinality(c[b] \cup {miner[b]}) >= Q
Compatible(a, b) == a \in Anc(b) \/ b \in Anc(a)
Init == /\ parent \in {f \in [Block -> Block \cup {G}] : \A b \in Block : f[b] < b}
        /\ miner \in [Block -> Dep]
        /\ \A a, b \in Block : (a # b /\ miner[a] = miner[b]) => H(a) # H(b)   \* no deputy mines twice at one height
        /\ known = [n \in Dep |-> {G}] /\ conf = [n \in Dep |-> [b \in Block |-> {}]]
        /\ stable = [n \in Dep |-> G] /\ lastSig = [n \in Dep |-> G] /\ head = [n \in Dep |-> G]
        /\ signed = [b \in Block |-> {}]
\* Confirmer.needConfirm at node n for block b
NeedConfirm(n, b, c) ==
  LET L == IF H(lastSig[n]) <= H(stable[n]) THEN stable[n] ELSE lastSig[n] IN
  /\ ~Enough(c, b)
  /\ (parent[b] = L \/ H(b) > H(L) + Q)
Prune(kn, st) == {b \in kn : b \in Anc(st) \/ st \in Anc(b)}
Unconf(kn, st) == {b \in kn : st \in Anc(b) /\ b # st}
Best(S, dflt) == IF S = {} THEN dflt ELSE CHOOSE x \in S : \A y \in S : H(x) > H(y) \/ (H(x) = H(y) /\ x <= y)
\* ForkManager.UpdateFork / UpdateForkForConfirm at node n
NewHead(n, b, kn, st) ==
  LET un == Unconf(kn, st) IN
  IF head[n] \notin un THEN Best(un, st)
  ELSE IF b # G /\ parent[b] = head[n] THEN b
  ELSE IF b = G THEN head[n]
  ELSE LET cand == Best(un, st) IN IF H(cand) > H(head[n]) /\ (H(cand) - H(st)) % Q = 0 THEN cand ELSE head[n]
\* node n receives (or, if it is the miner, publishes) block b together with some of the confirms that exist for it
Receive(n, b, sg) ==
  /\ b \notin known[n] /\ H(b) > H(stable[n])
  /\ parent[b] \in known[n] /\ stable[n] \in Anc(b)
  /\ (n # miner[b] => miner[b] \in signed[b])              \* someone else's block exists only once its miner published it
  /\ (n = miner[b] => parent[b] = head[n])                  \* a deputy mines on its own current block only
  /\ sg \subseteq signed[b] \ {miner[b]}
  /\ LET c1 == [conf[n] EXCEPT ![b] = sg]
         sign == n # miner[b] /\ NeedConfirm(n, b, c1)
         c2 == IF sign THEN [c1 EXCEPT ![b] = @ \cup {n}] ELSE c1
         st2 == IF Enough(c2, b) THEN b ELSE stable[n]
     IN /\ conf' = [conf EXCEPT ![n] = c2]
        /\ stable' = [stable EXCEPT ![n] = st2]
        /\ known' = [known EXCEPT ![n] = Prune(known[n] \cup {b}, st2)]
        /\ head' = [head EXCEPT ![n] = NewHead(n, b, Prune(known[n] \cup {b}, st2), st2)]
        /\ signed' = [signed EXCEPT ![b] = @ \cup (IF sign \/ n = miner[b] THEN {n} ELSE {})]
        /\ lastSig' = [lastSig EXCEPT ![n] = IF (sign \/ n = miner[b]) /\ H(b) > H(lastSig[n]) THEN b ELSE @]
  /\ UNCHANGED <<parent, miner>>
\* node n receives confirm signatures for a block it holds
Confirms(n, b, sg) ==
  /\ b \in known[n] \ {G} /\ ~Enough(conf[n], b)
  /\ sg \subseteq signed[b] \ {miner[b]} /\ sg \ conf[n][b] # {}
  /\ LET c2 == [conf[n] EXCEPT ![b] = @ \cup sg]
         st2 == IF H(b) > H(stable[n]) /\ Enough(c2, b) THEN b ELSE stable[n]
     IN /\ conf' = [conf EXCEPT ![n] = c2]
        /\ stable' = [stable EXCEPT ![n] = st2]
        /\ known' = [known EXCEPT ![n] = Prune(known[n], st2)]
        /\ head' = [head EXCEPT ![n] = NewHead(n, G, Prune(known[n], st2), st2)]
  /\ UNCHANGED <<parent, miner, lastSig, signed>>
Next == \/ \E n \in Dep, b \in Block, sg \in SUBSET Dep : Receive(n, b, sg)
        \/ \E n \in Dep, b \in Block, sg \in SUBSET Dep : Confirms(n, b, sg)
Spec == Init /\ [][Next]_vars
\* ---- the system-level safety question ----
Agreement == \A m, n \in Dep : Compatible(stable[m], stable[n])
\* what holds regardless: a stable block has a quorum of real signatures
QuorumReal == \A n \in Dep : stable[n] # G => Cardinality(signed[stable[n]]) >= Q
====
