SPECIFICATION Spec
CONSTANTS Addrs <- McAddrs
 InitStable <- McInitStable
 AddrN = 1
 Mixed = FALSE
 MaxBlocks = 2
 MaxWrites = 1
 MaxStable = 1
 MaxRestart = 0
 MaxReads = 0
 LeafOnly = TRUE
 MaxSlots = 2
 CanonSlots = TRUE
 Kinds = {"extra"}
 IdentByHash = FALSE
PROPERTIES PruneExact
CHECK_DEADLOCK FALSE
