SPECIFICATION TraceSpec
CONSTANTS Addrs <- TrAddrs
 InitStable <- TrInitStable
 MaxBlocks = 1000000
 MaxWrites = 1000000
 MaxStable = 1000000
 MaxRestart = 1000000
 MaxReads = 1000000
 LeafOnly = TRUE
 MaxSlots = 1000000
 CanonSlots = FALSE
 Kinds <- TrKinds
 IdentByHash = TRUE
CONSTRAINT HW
INVARIANTS TrViewIsNearestWrite TrPersist
POSTCONDITION Accepted
CHECK_DEADLOCK FALSE
