---- MODULE Durability ----
(* C08 - design of the stable-block persistence pipeline of lemochain-core/store, with process-death faults.

   Code modelled (one action per write that can be separated by a crash):
     main thread   account.Manager.Save        -> BeansDB batch of trie nodes          (Insert)
                   ChainDatabase.blockCommit   -> BeansDB.Commit(batch: block, accounts) (Batch)
                                               -> leveldb.SetCurrentBlock               (SetPtr)
                                               -> RunContext.Flush: head, then body, in place (CtxHead, CtxBody)
                   ChainDatabase.SetConfirms   -> BeansDB.Put(block with confirms)      (Confirm)
       every BeansDB write = FileQueue.Put/PutBatch: emptyFile (delete tmp.data when the in-memory index is empty),
       ONE write+fsync of the encoded records at the end of tmp.data, then delivery to the async writer.
     async writer  SyncFileDB.start -> BitCask.Put: data write+fsync at CurOffset (WData), leveldb.SetPos (WPos),
                   leveldb.SetCurrentPos (WCur), then FileQueue.afterPut drops the index entry.
     recovery      NewChainDataBase: NewRunContext.Load (RLoadCtx), BeansDB.Start: bitcasks reopen at the persisted
                   CurrentPos and FileQueue.scanFile redelivers every record of tmp.data (RScan), GetStableBlock (RStable).
   Faults: Crash at any point (also during recovery): volatile state is lost, every completed write persists.
           TornWalCrash / TornCtxCrash: a prefix of the in-flight file write reaches the file.
           LevelDB Puts are atomic.

   Repair flags.  FALSE = what the code does, TRUE = the deviation-free design the property is checked on:
     RepairTornTail      recovery verifies the record checksums and truncates tmp.data back to the last complete
                         write unit (code: an undecodable tail panics, a zero-filled record that still parses is
                         redelivered, the complete records of a torn batch are redelivered)
     RepairAtomicContext context.data is replaced atomically (write new file + rename) (code: in place, no checksum)
     RepairScanPromotes  recovery moves the stable pointer to the newest block whose commit batch it finds in tmp.data
                         and re-derives context.data from it - what ChainDatabase.AfterScan was written for but is not
                         wired to (code: the batch is redelivered, pointer and candidate list stay behind) *)
EXTENDS Naturals, Sequences, FiniteSets, TLC
CONSTANTS NB, MaxCrash, RepairTornTail, RepairAtomicContext, RepairScanPromotes

TORN == NB + 1
None == [k |-> "none", b |-> 0, v |-> 0, bad |-> FALSE]
R(k, b, v) == [k |-> k, b |-> b, v |-> v, bad |-> FALSE]
Key(r) == IF r.k = "acct" THEN <<"acct", 0>> ELSE <<r.k, r.b>>     \* one account key: its value is "accounts as of block b"
Keys == {<<"acct", 0>>} \cup {<<k, b>> : k \in {"blk", "trie"}, b \in 1..NB}
ToSet(s) == {s[i] : i \in 1..Len(s)}

VARIABLES
  wal,        \* tmp.data: Seq of write units [recs: Seq(record), n: number of complete records on disk, tail]
              \*   tail = "ok" (all of it) | "eof" (torn, reads as end of file) | "bad" (torn, does not decode) | "zero" (torn, zero-filled record parses)
  queue,      \* volatile: records delivered to the async writer, not yet taken
  wrec, wpc,  \* volatile: record in BitCask.Put and its program counter
  file,       \* bitcask data file: Seq of records (slots)
  pos,        \* LevelDB position index: key -> slot (0 = none)
  curDisk,    \* LevelDB CurrentPos of the bitcask (slots durably handed out)
  curMem,     \* volatile BitCask.CurOffset
  ptr,        \* LevelDB stable pointer (block number)
  ctx,        \* context.data: block whose candidate list it holds, or TORN
  pc, cur,    \* main thread
  rpc,        \* "up" | "down" | recovery step
  completed,  \* history: last block whose promotion returned
  opened,     \* "ok" | "panic": did a recovery step panic
  crashes
vars == <<wal, queue, wrec, wpc, file, pos, curDisk, curMem, ptr, ctx, pc, cur, rpc, completed, opened, crashes>>

Init == /\ wal = <<>> /\ queue = <<>> /\ wrec = None /\ wpc = "idle"
        /\ file = <<>> /\ pos = [k \in Keys |-> 0] /\ curDisk = 0 /\ curMem = 0
        /\ ptr = 0 /\ ctx = 0 /\ pc = "idle" /\ cur = 0 /\ rpc = "up" /\ completed = 0 /\ opened = "ok" /\ crashes = 0

(* ---- reads: FileQueue.Get = in-memory index of undelivered records first, then position index + data file ---- *)
Pending == (IF wpc = "idle" THEN <<>> ELSE <<wrec>>) \o queue
RECURSIVE LastWith(_, _)
LastWith(s, key) == IF s = <<>> THEN None
                    ELSE IF Key(s[Len(s)]) = key THEN s[Len(s)] ELSE LastWith(SubSeq(s, 1, Len(s) - 1), key)
DiskRead(key) == IF pos[key] = 0 \/ pos[key] > Len(file) THEN None
                 ELSE IF Key(file[pos[key]]) = key THEN file[pos[key]] ELSE None      \* BitCask.get: key mismatch -> nil
Read(key) == LET p == LastWith(Pending, key) IN IF p # None THEN p ELSE DiskRead(key)
Good(r) == r # None /\ ~r.bad

(* ---- tmp.data ---- *)
Unit(recs) == [recs |-> recs, n |-> Len(recs), tail |-> "ok"]
\* emptyFile + FileUtilsFlush + deliver.  A crash between them differs from a crash after them only in volatile state.
WalAppend(recs) == /\ wal' = (IF Pending = <<>> THEN <<>> ELSE wal) \o <<Unit(recs)>>
                /\ queue' = queue \o recs
\* what scanFile sees: complete records of every unit, plus the zero-filled record of a torn one
Visible(u) == SubSeq(u.recs, 1, u.n) \o (IF u.tail = "zero" THEN <<[u.recs[u.n + 1] EXCEPT !.bad = TRUE]>> ELSE <<>>)
RECURSIVE Flatten(_)
Flatten(w) == IF w = <<>> THEN <<>> ELSE Visible(w[1]) \o Flatten(Tail(w))
CompleteUnits(w) == SelectSeq(w, LAMBDA u : u.tail = "ok")

(* ---- main thread ---- *)
Running == rpc = "up"
Insert(b) ==                                      \* Save of block b: its trie nodes go through the WAL before it is stable
  /\ Running /\ pc = "idle" /\ cur < NB /\ b = cur + 1
  /\ WalAppend(<<R("trie", b, 1)>>)
  /\ cur' = b /\ pc' = "inserted"
  /\ UNCHANGED <<wrec, wpc, file, pos, curDisk, curMem, ptr, ctx, rpc, completed, opened, crashes>>
Batch(b) ==                                       \* blockCommit: block + accounts as one PutBatch
  /\ Running /\ pc = "inserted" /\ b = cur
  /\ WalAppend(<<R("blk", b, 1), R("acct", b, 1)>>)
  /\ pc' = "ptr"
  /\ UNCHANGED <<wrec, wpc, file, pos, curDisk, curMem, ptr, ctx, cur, rpc, completed, opened, crashes>>
SetPtr(b) ==
  /\ Running /\ pc = "ptr" /\ b = cur
  /\ ptr' = b /\ pc' = "ctxhead"
  /\ UNCHANGED <<wal, queue, wrec, wpc, file, pos, curDisk, curMem, ctx, cur, rpc, completed, opened, crashes>>
CtxHead(b) ==                                     \* head rewritten in place: still the old list (stale but readable)
  /\ Running /\ pc = "ctxhead" /\ b = cur
  /\ pc' = "ctxbody"
  /\ UNCHANGED <<wal, queue, wrec, wpc, file, pos, curDisk, curMem, ptr, ctx, cur, rpc, completed, opened, crashes>>
CtxBody(b) ==
  /\ Running /\ pc = "ctxbody" /\ b = cur
  /\ ctx' = b /\ pc' = "conf" /\ completed' = b
  /\ UNCHANGED <<wal, queue, wrec, wpc, file, pos, curDisk, curMem, ptr, cur, rpc, opened, crashes>>
Confirm(b) ==                                     \* SetConfirms on the stable block: the block record is rewritten
  /\ Running /\ pc = "conf" /\ b = cur
  /\ WalAppend(<<R("blk", b, 2)>>)
  /\ pc' = "idle"
  /\ UNCHANGED <<wrec, wpc, file, pos, curDisk, curMem, ptr, ctx, cur, rpc, completed, opened, crashes>>
SkipConfirm(b) ==
  /\ Running /\ pc = "conf" /\ b = cur
  /\ pc' = "idle"
  /\ UNCHANGED <<wal, queue, wrec, wpc, file, pos, curDisk, curMem, ptr, ctx, cur, rpc, completed, opened, crashes>>

(* ---- async writer (runs whenever the process is up and the queue has been started: after RScan) ---- *)
WriterOn == rpc \in {"up", "stable"}
WTake ==
  /\ WriterOn /\ wpc = "idle" /\ queue # <<>>
  /\ wrec' = Head(queue) /\ queue' = Tail(queue) /\ wpc' = "data"
  /\ UNCHANGED <<wal, file, pos, curDisk, curMem, ptr, ctx, pc, cur, rpc, completed, opened, crashes>>
WData ==                                          \* data written at CurOffset: overwrites whatever a crashed Put left there
  /\ WriterOn /\ wpc = "data"
  /\ file' = IF curMem + 1 <= Len(file) THEN [file EXCEPT ![curMem + 1] = wrec] ELSE file \o <<wrec>>
  /\ wpc' = "pos"
  /\ UNCHANGED <<wal, queue, wrec, pos, curDisk, curMem, ptr, ctx, pc, cur, rpc, completed, opened, crashes>>
WPos ==
  /\ WriterOn /\ wpc = "pos"
  /\ pos' = [pos EXCEPT ![Key(wrec)] = curMem + 1] /\ wpc' = "cur"
  /\ UNCHANGED <<wal, queue, wrec, file, curDisk, curMem, ptr, ctx, pc, cur, rpc, completed, opened, crashes>>
WCur ==                                           \* SetCurrentPos, then afterPut acknowledges the record
  /\ WriterOn /\ wpc = "cur"
  /\ curDisk' = curMem + 1 /\ curMem' = curMem + 1 /\ wpc' = "idle" /\ wrec' = None
  /\ UNCHANGED <<wal, queue, file, pos, ptr, ctx, pc, cur, rpc, completed, opened, crashes>>

(* ---- faults ---- *)
Alive == rpc # "down" /\ opened = "ok"
Die == /\ crashes < MaxCrash /\ crashes' = crashes + 1
       /\ rpc' = "down" /\ pc' = "down" /\ queue' = <<>> /\ wrec' = None /\ wpc' = "idle"
Crash ==
  /\ Alive /\ Die
  /\ UNCHANGED <<wal, file, pos, curDisk, curMem, ptr, ctx, cur, completed, opened>>
\* the process dies inside the tmp.data write of the next main-thread step: j complete records, then a partial one
NextRecs == IF pc = "idle" /\ cur < NB THEN <<R("trie", cur + 1, 1)>>
            ELSE IF pc = "inserted" THEN <<R("blk", cur, 1), R("acct", cur, 1)>>
            ELSE IF pc = "conf" THEN <<R("blk", cur, 2)>> ELSE <<>>
TornWalCrash(j, tail) ==
  /\ Alive /\ Running /\ NextRecs # <<>> /\ j \in 0..(Len(NextRecs) - 1) /\ tail \in {"eof", "bad", "zero"}
  /\ wal' = (IF Pending = <<>> THEN <<>> ELSE wal) \o <<[recs |-> NextRecs, n |-> j, tail |-> tail]>>
  /\ Die
  /\ UNCHANGED <<file, pos, curDisk, curMem, ptr, ctx, cur, completed, opened>>
TornCtxCrash ==                                   \* in-place rewrite of context.data interrupted
  /\ Alive /\ Running /\ pc \in {"ctxhead", "ctxbody"}
  /\ ctx' = IF RepairAtomicContext THEN ctx ELSE TORN      \* write-new + rename: the old file stays whole
  /\ Die
  /\ UNCHANGED <<wal, file, pos, curDisk, curMem, ptr, cur, completed, opened>>

(* ---- recovery: NewChainDataBase, one action per step so that a crash during recovery is an interleaving ---- *)
RStart ==
  /\ rpc = "down" /\ opened = "ok"
  /\ rpc' = "ctx"
  /\ UNCHANGED <<wal, queue, wrec, wpc, file, pos, curDisk, curMem, ptr, ctx, pc, cur, completed, opened, crashes>>
RLoadCtx ==                                       \* NewRunContext: a torn context.data panics
  /\ rpc = "ctx" /\ opened = "ok"
  /\ IF ctx = TORN THEN opened' = "panic" /\ rpc' = rpc ELSE opened' = opened /\ rpc' = "scan"
  /\ UNCHANGED <<wal, queue, wrec, wpc, file, pos, curDisk, curMem, ptr, ctx, pc, cur, completed, crashes>>
BlocksIn(recs) == {r.b : r \in {x \in ToSet(recs) : x.k = "blk" /\ ~x.bad}}
Max(S) == CHOOSE x \in S : \A y \in S : y <= x
RScan ==                                          \* bitcasks reopen at CurrentPos; scanFile redelivers tmp.data
  /\ rpc = "scan" /\ opened = "ok"
  /\ curMem' = curDisk
  /\ IF RepairTornTail
     THEN /\ wal' = CompleteUnits(wal) /\ opened' = opened /\ rpc' = "stable"
          /\ queue' = Flatten(CompleteUnits(wal))
     ELSE /\ wal' = wal
          /\ IF \E i \in 1..Len(wal) : wal[i].tail = "bad"
             THEN opened' = "panic" /\ rpc' = rpc /\ queue' = queue
             ELSE opened' = opened /\ rpc' = "stable" /\ queue' = Flatten(wal)
  /\ IF RepairScanPromotes /\ BlocksIn(queue') # {} /\ Max(BlocksIn(queue')) >= ptr
     THEN ptr' = Max(BlocksIn(queue')) /\ ctx' = Max(BlocksIn(queue'))
     ELSE ptr' = ptr /\ ctx' = ctx
  /\ UNCHANGED <<wrec, wpc, file, pos, curDisk, pc, cur, completed, crashes>>
RStable ==                                        \* GetStableBlock: the stable block must decode
  /\ rpc = "stable" /\ opened = "ok"
  /\ IF ptr > 0 /\ ~Good(Read(<<"blk", ptr>>))
     THEN opened' = "panic" /\ rpc' = rpc /\ pc' = pc /\ cur' = cur
     ELSE opened' = opened /\ rpc' = "up" /\ pc' = "idle" /\ cur' = ptr
  /\ UNCHANGED <<wal, queue, wrec, wpc, file, pos, curDisk, curMem, ptr, ctx, completed, crashes>>

Next == \/ \E b \in 1..NB : Insert(b) \/ Batch(b) \/ SetPtr(b) \/ CtxHead(b) \/ CtxBody(b) \/ Confirm(b) \/ SkipConfirm(b)
        \/ WTake \/ WData \/ WPos \/ WCur
        \/ Crash \/ TornCtxCrash \/ \E j \in 0..1, t \in {"eof", "bad", "zero"} : TornWalCrash(j, t)
        \/ RStart \/ RLoadCtx \/ RScan \/ RStable
Spec == Init /\ [][Next]_vars

(* ---- C08 ---- *)
\* the database opens again without manual repair
Opens == opened = "ok"
\* it presents a stable block no older than the last one whose promotion had completed
StableNotOlder == ptr >= completed
\* that block, its ancestors, their trie nodes: readable once the node is up ...
StableClosed == rpc = "up" => \A b \in 1..ptr : Good(Read(<<"blk", b>>)) /\ Good(Read(<<"trie", b>>))
\* ... and at every instant recoverable from what is on disk (position index + data file, or tmp.data)
OnDisk(key) == LET w == LastWith(Flatten(CompleteUnits(wal)), key) IN Good(w) \/ (w = None /\ Good(DiskRead(key)))
DurablyClosed == \A b \in 1..ptr : OnDisk(<<"blk", b>>) /\ OnDisk(<<"trie", b>>)
\* the account data is as of exactly the stable block whenever no promotion is in progress
AcctAsOf == LET r == Read(<<"acct", 0>>) IN IF r = None THEN 0 ELSE IF r.bad THEN TORN ELSE r.b
AccountsExact == (rpc = "up" /\ pc \in {"idle", "inserted", "conf"}) => AcctAsOf = ptr
\* the persisted candidate list is that of the stable block whenever no promotion is in progress
ContextFresh == (rpc = "up" /\ pc \in {"idle", "inserted", "conf"}) => ctx = ptr
TypeOK == /\ ptr \in 0..NB /\ ctx \in 0..TORN /\ cur \in 0..NB /\ curDisk <= Len(file) /\ curMem <= Len(file)
====
