---- MODULE Durability ----
(* C08 - design of the stable-block persistence pipeline of lemochain-core/store, with process-death faults.

   Code modelled (one action per write that can be separated by a crash):
     main thread   account.Manager.Save        -> BeansDB batch of trie nodes          (Insert)
                   ChainDatabase.blockCommit   -> BeansDB.Commit(batch: block, accounts) (Batch)
                                               -> leveldb.SetCurrentBlock               (SetPtr)
                                               -> RunContext.Flush: head, then body, in place (CtxHead, CtxBody)
                   ChainDatabase.SetConfirms   -> BeansDB.Put(block with confirms)      (Confirm)
       every BeansDB write = FileQueue.Put/PutBatch: emptyFile (delete tmp.data when the in-memory index is empty),
       ONE write+fsync of the encoded records at FileQueue.Offset of tmp.data, then delivery to the async writer.
     async writer  SyncFileDB.start -> BitCask.Put: data write+fsync at CurOffset (WData), leveldb.SetPos (WPos),
                   leveldb.SetCurrentPos (WCur), then FileQueue.afterPut drops the index entry.
     recovery      NewChainDataBase: NewRunContext.Load (RLoadCtx), BeansDB.Start: bitcasks reopen at the persisted
                   CurrentPos and FileQueue.scanFile walks tmp.data RECORD BY RECORD from offset 0 and redelivers each
                   record it finds (RScanRec ... RScanEnd), GetStableBlock (RStable).
   Faults: Crash at any point (also during recovery, also between two scanned records): volatile state is lost,
           every completed write persists.
           TornWalCrash / TornCtxCrash: a prefix of the in-flight file write reaches the file.
           LevelDB Puts are atomic.

   On-disk record format.  tmp.data and the bitcask data files are sequences of 256-byte SLOTS: a record (18-byte head +
   rlp body) is zero-padded to the next multiple of 256 (FileUtilsAlign), the low byte of a bitcask position is the
   file index.  Every record carries a LENGTH CLASS relative to such a boundary - the only thing about its length
   that the formats can be sensitive to:
       "below"  head+body = k*256 - 1   one byte of padding       (every record that is not on a boundary behaves so)
       "on"     head+body = k*256       no padding at all
       "above"  head+body = k*256 + 1   255 bytes of padding, one slot more
   (modelled with k = 1: 1, 1 and 2 slots).  The main thread picks the class of every record it writes; MaxEdge bounds
   how many records of one behaviour are not "below".
     ScanStride   how the recovery scan gets from one record to the next:
                  "align"     offset + FileUtilsAlign(head + body)              - what the code does
                  "nextblock" (offset + head + body) / 256 * 256 + 256          - negative control: right except "on"
     CaskAdvance  how BitCask.Put advances CurOffset: "align" (the code) | "floor" (len / 256 * 256, min one slot -
                  negative control: right except "above")

   Repair flags.  FALSE = what the code does, TRUE = the deviation-free design the property is checked on:
     RepairTornTail      recovery verifies the record checksums and truncates tmp.data back to the last complete
                         write unit (code: an undecodable tail panics, a zero-filled record that still parses is
                         redelivered, the complete records of a torn batch are redelivered)
     RepairAtomicContext context.data is replaced atomically (write new file + rename) (code: in place, no checksum)
     RepairScanPromotes  recovery moves the stable pointer to the newest block whose commit batch it finds in tmp.data
                         and re-derives context.data from it - what ChainDatabase.AfterScan was written for but is not
                         wired to (code: the batch is redelivered, pointer and candidate list stay behind) *)
EXTENDS Naturals, Sequences, FiniteSets, TLC
CONSTANTS NB, MaxCrash, RepairTornTail, RepairAtomicContext, RepairScanPromotes, MaxEdge, ScanStride, CaskAdvance

TORN == NB + 1
LenClasses == {"below", "on", "above"}
None == [k |-> "none", b |-> 0, v |-> 0, bad |-> FALSE, lc |-> "below"]
R(k, b, v, lc) == [k |-> k, b |-> b, v |-> v, bad |-> FALSE, lc |-> lc]
Key(r) == IF r.k = "acct" THEN <<"acct", 0>> ELSE <<r.k, r.b>>     \* one account key: its value is "accounts as of block b"
Keys == {<<"acct", 0>>} \cup {<<k, b>> : k \in {"blk", "trie"}, b \in 1..NB}
ToSet(s) == {s[i] : i \in 1..Len(s)}

(* ---- the 256-byte format ---- *)
Slots(r) == IF r.lc = "above" THEN 2 ELSE 1                         \* FileUtilsAlign(head + body) / 256
Stride(r) == IF ScanStride = "align" THEN Slots(r)                  \* scanFile: from this record to the next
             ELSE IF r.lc = "below" THEN 1 ELSE 2                   \* (end / 256 + 1): one slot too many exactly for "on"
Advance(r) == IF CaskAdvance = "align" THEN Slots(r) ELSE 1         \* BitCask.Put: CurOffset += ...
RECURSIVE SlotsOf(_)
SlotsOf(recs) == IF recs = <<>> THEN 0 ELSE Slots(recs[1]) + SlotsOf(Tail(recs))
Edge(recs) == Cardinality({i \in 1..Len(recs) : recs[i].lc # "below"})

VARIABLES
  wal,        \* tmp.data: Seq of write units [recs: Seq(record), n: number of complete records on disk, tail, w]
              \*   tail = "ok" (all of it) | "eof" (torn, reads as end of file) | "bad" (torn, does not decode) | "zero" (torn, zero-filled record parses)
              \*        | "hole" (w slots that were never written: the file was extended beyond its end)
  woff,       \* volatile FileQueue.Offset (slots): where the next write unit goes
  so,         \* volatile: offset (slots) of the recovery scan
  queue,      \* volatile: records delivered to the async writer, not yet taken
  wrec, wpc,  \* volatile: record in BitCask.Put and its program counter
  file,       \* bitcask data file: Seq of slots [r: record, part: 1..Slots(r)]
  pos,        \* LevelDB position index: key -> first slot (0 = none)
  curDisk,    \* LevelDB CurrentPos of the bitcask (slots durably handed out)
  curMem,     \* volatile BitCask.CurOffset
  ptr,        \* LevelDB stable pointer (block number)
  ctx,        \* context.data: block whose candidate list it holds, or TORN
  pc, cur,    \* main thread
  rpc,        \* "up" | "down" | recovery step
  completed,  \* history: last block whose promotion returned
  opened,     \* "ok" | "panic": did a recovery step panic
  crashes,
  edge        \* history: records written so far whose length class is not "below"
vars == <<wal, woff, so, queue, wrec, wpc, file, pos, curDisk, curMem, ptr, ctx, pc, cur, rpc, completed, opened, crashes, edge>>

Init == /\ wal = <<>> /\ woff = 0 /\ so = 0 /\ queue = <<>> /\ wrec = None /\ wpc = "idle"
        /\ file = <<>> /\ pos = [k \in Keys |-> 0] /\ curDisk = 0 /\ curMem = 0
        /\ ptr = 0 /\ ctx = 0 /\ pc = "idle" /\ cur = 0 /\ rpc = "up" /\ completed = 0 /\ opened = "ok" /\ crashes = 0 /\ edge = 0

(* ---- reads: FileQueue.Get = in-memory index of undelivered records first, then position index + data file ---- *)
Pending == (IF wpc = "idle" THEN <<>> ELSE <<wrec>>) \o queue
RECURSIVE LastWith(_, _)
LastWith(s, key) == IF s = <<>> THEN None
                    ELSE IF Key(s[Len(s)]) = key THEN s[Len(s)] ELSE LastWith(SubSeq(s, 1, Len(s) - 1), key)
\* BitCask.get reads head + body at the indexed slot: a wrong key -> nil; a record whose later slots were overwritten
\* fails its checksum
DiskRead(key) == LET p == pos[key] IN
                 IF p = 0 \/ p > Len(file) THEN None
                 ELSE LET r == file[p].r IN
                      IF file[p].part # 1 \/ Key(r) # key THEN None
                      ELSE IF \A i \in 1..Slots(r) : p + i - 1 <= Len(file) /\ file[p + i - 1] = [r |-> r, part |-> i]
                           THEN r ELSE [r EXCEPT !.bad = TRUE]
Read(key) == LET p == LastWith(Pending, key) IN IF p # None THEN p ELSE DiskRead(key)
Good(r) == r # None /\ ~r.bad

(* ---- tmp.data as a sequence of slots ---- *)
Unit(recs) == [recs |-> recs, n |-> Len(recs), tail |-> "ok", w |-> 0]
Hole(w) == [recs |-> <<>>, n |-> 0, tail |-> "hole", w |-> w]
\* what lies in the file, element by element: complete records (whole = their write unit is complete), then the torn
\* record of a torn unit, or a hole.  s = slots the element occupies.
Elems(u) == [i \in 1..u.n |-> [t |-> "rec", r |-> u.recs[i], whole |-> u.tail = "ok", s |-> Slots(u.recs[i])]]
            \o (IF u.tail \in {"eof", "bad", "zero"}
                THEN <<[t |-> u.tail, r |-> u.recs[u.n + 1], whole |-> FALSE, s |-> Slots(u.recs[u.n + 1])]>>
                ELSE IF u.tail = "hole" THEN <<[t |-> "hole", r |-> None, whole |-> FALSE, s |-> u.w]>> ELSE <<>>)
RECURSIVE FlatE(_)
FlatE(w) == IF w = <<>> THEN <<>> ELSE Elems(w[1]) \o FlatE(Tail(w))
RECURSIVE OffOf(_, _)
OffOf(F, i) == IF i <= 1 THEN 0 ELSE OffOf(F, i - 1) + F[i - 1].s         \* slot at which element i starts
TotalSlots(w) == LET F == FlatE(w) IN OffOf(F, Len(F) + 1)
\* one read of scanFile (FileUtilsRead) that hits the first slot of element e
StepOn(e, o) ==
  IF e.t = "rec" THEN IF RepairTornTail /\ ~e.whole THEN [t |-> "stop"]
                      ELSE [t |-> "rec", r |-> e.r, next |-> o + Stride(e.r)]
  ELSE IF e.t = "zero" /\ ~RepairTornTail THEN [t |-> "rec", r |-> [e.r EXCEPT !.bad = TRUE], next |-> o + Stride(e.r)]
  ELSE IF e.t = "bad" /\ ~RepairTornTail THEN [t |-> "panic"]
  ELSE [t |-> "stop"]
\* one step of scanFile at slot offset o (element i starts at slot `at`).  Anything that is not the first slot of a
\* record - the inside of a record, a hole, the end of the file - fails the checksum or is short: it reads as end of file.
RECURSIVE StepAt(_, _, _, _)
StepAt(F, i, at, o) == IF i > Len(F) \/ at > o THEN [t |-> "stop"]
                       ELSE IF at < o THEN StepAt(F, i + 1, at + F[i].s, o)
                       ELSE StepOn(F[i], o)
ScanStep(w, o) == StepAt(FlatE(w), 1, 0, o)
\* the whole scan as a function of the file, record by record: what a restart at this instant would redeliver
RECURSIVE ScanWalk(_, _, _, _)
ScanWalk(F, i, at, o) == IF i > Len(F) \/ at > o THEN <<>>
                         ELSE IF at < o THEN ScanWalk(F, i + 1, at + F[i].s, o)
                         ELSE LET st == StepOn(F[i], o) IN
                              IF st.t = "rec" THEN <<st.r>> \o ScanWalk(F, i + 1, at + F[i].s, st.next) ELSE <<>>
Scanned(w) == ScanWalk(FlatE(w), 1, 0, 0)
\* the file cut back to slot offset off: the units (of a cut unit: the complete records) that end at or before it
RECURSIVE CutAt(_, _)
CutAt(w, off) ==
  IF w = <<>> \/ off <= 0 THEN <<>>
  ELSE LET u == w[1]  su == OffOf(Elems(u), Len(Elems(u)) + 1) IN
       IF su <= off THEN <<u>> \o CutAt(Tail(w), off - su)
       ELSE LET m == Cardinality({i \in 1..u.n : SlotsOf(SubSeq(u.recs, 1, i)) <= off}) IN
            IF m = 0 THEN <<>> ELSE <<[recs |-> SubSeq(u.recs, 1, m), n |-> m, tail |-> "ok", w |-> 0]>>
\* FileUtilsFlush(path, Offset, data): the unit lands at slot offset off - behind the end (a hole appears), at the end,
\* or over what was there (a record that is partly overwritten is garbage from then on)
PutAt(w, off, u) == LET c == CutAt(w, off)  t == TotalSlots(c) IN
                    c \o (IF t < off THEN <<Hole(off - t)>> ELSE <<>>) \o <<u>>
\* emptyFile (a fresh file when nothing is pending) + FileUtilsFlush + deliver.  A crash between them differs from a
\* crash after them only in volatile state.
WalAppend(recs) == LET fresh == Pending = <<>>
                       off == IF fresh THEN 0 ELSE woff IN
                   /\ wal' = PutAt(IF fresh THEN <<>> ELSE wal, off, Unit(recs))
                   /\ woff' = off + SlotsOf(recs)
                   /\ queue' = queue \o recs
                   /\ edge' = edge + Edge(recs)
Budget(recs) == edge + Edge(recs) <= MaxEdge

(* ---- main thread ---- *)
Running == rpc = "up"
Insert(b, l) ==                                   \* Save of block b: its trie nodes go through the WAL before it is stable
  /\ Running /\ pc = "idle" /\ cur < NB /\ b = cur + 1
  /\ Budget(<<R("trie", b, 1, l)>>)
  /\ WalAppend(<<R("trie", b, 1, l)>>)
  /\ cur' = b /\ pc' = "inserted"
  /\ UNCHANGED <<so, wrec, wpc, file, pos, curDisk, curMem, ptr, ctx, rpc, completed, opened, crashes>>
Batch(b, l1, l2) ==                               \* blockCommit: block + accounts as one PutBatch
  /\ Running /\ pc = "inserted" /\ b = cur
  /\ Budget(<<R("blk", b, 1, l1), R("acct", b, 1, l2)>>)
  /\ WalAppend(<<R("blk", b, 1, l1), R("acct", b, 1, l2)>>)
  /\ pc' = "ptr"
  /\ UNCHANGED <<so, wrec, wpc, file, pos, curDisk, curMem, ptr, ctx, cur, rpc, completed, opened, crashes>>
SetPtr(b) ==
  /\ Running /\ pc = "ptr" /\ b = cur
  /\ ptr' = b /\ pc' = "ctxhead"
  /\ UNCHANGED <<wal, woff, so, queue, wrec, wpc, file, pos, curDisk, curMem, ctx, cur, rpc, completed, opened, crashes, edge>>
CtxHead(b) ==                                     \* head rewritten in place: still the old list (stale but readable)
  /\ Running /\ pc = "ctxhead" /\ b = cur
  /\ pc' = "ctxbody"
  /\ UNCHANGED <<wal, woff, so, queue, wrec, wpc, file, pos, curDisk, curMem, ptr, ctx, cur, rpc, completed, opened, crashes, edge>>
CtxBody(b) ==
  /\ Running /\ pc = "ctxbody" /\ b = cur
  /\ ctx' = b /\ pc' = "conf" /\ completed' = b
  /\ UNCHANGED <<wal, woff, so, queue, wrec, wpc, file, pos, curDisk, curMem, ptr, cur, rpc, opened, crashes, edge>>
Confirm(b, l) ==                                  \* SetConfirms on the stable block: the block record is rewritten
  /\ Running /\ pc = "conf" /\ b = cur
  /\ Budget(<<R("blk", b, 2, l)>>)
  /\ WalAppend(<<R("blk", b, 2, l)>>)
  /\ pc' = "idle"
  /\ UNCHANGED <<so, wrec, wpc, file, pos, curDisk, curMem, ptr, ctx, cur, rpc, completed, opened, crashes>>
SkipConfirm(b) ==
  /\ Running /\ pc = "conf" /\ b = cur
  /\ pc' = "idle"
  /\ UNCHANGED <<wal, woff, so, queue, wrec, wpc, file, pos, curDisk, curMem, ptr, ctx, cur, rpc, completed, opened, crashes, edge>>

(* ---- async writer (runs whenever the process is up and the queue has been started: after the scan) ---- *)
WriterOn == rpc \in {"up", "stable"}
WTake ==
  /\ WriterOn /\ wpc = "idle" /\ queue # <<>>
  /\ wrec' = Head(queue) /\ queue' = Tail(queue) /\ wpc' = "data"
  /\ UNCHANGED <<wal, woff, so, file, pos, curDisk, curMem, ptr, ctx, pc, cur, rpc, completed, opened, crashes, edge>>
\* the padded record is written at CurOffset: it overwrites whatever a crashed Put (or a too short advance) left there
RECURSIVE WriteAt(_, _, _, _)
WriteAt(f, at, r, i) == IF i > Slots(r) THEN f
                        ELSE LET c == [r |-> r, part |-> i] IN
                             WriteAt(IF at + i <= Len(f) THEN [f EXCEPT ![at + i] = c] ELSE f \o <<c>>, at, r, i + 1)
WData ==
  /\ WriterOn /\ wpc = "data"
  /\ file' = WriteAt(file, curMem, wrec, 1)
  /\ wpc' = "pos"
  /\ UNCHANGED <<wal, woff, so, queue, wrec, pos, curDisk, curMem, ptr, ctx, pc, cur, rpc, completed, opened, crashes, edge>>
WPos ==
  /\ WriterOn /\ wpc = "pos"
  /\ pos' = [pos EXCEPT ![Key(wrec)] = curMem + 1] /\ wpc' = "cur"
  /\ UNCHANGED <<wal, woff, so, queue, wrec, file, curDisk, curMem, ptr, ctx, pc, cur, rpc, completed, opened, crashes, edge>>
WCur ==                                           \* SetCurrentPos, then afterPut acknowledges the record
  /\ WriterOn /\ wpc = "cur"
  /\ curDisk' = curMem + Advance(wrec) /\ curMem' = curMem + Advance(wrec) /\ wpc' = "idle" /\ wrec' = None
  /\ UNCHANGED <<wal, woff, so, queue, file, pos, ptr, ctx, pc, cur, rpc, completed, opened, crashes, edge>>

(* ---- faults ---- *)
Alive == rpc # "down" /\ opened = "ok"
Die == /\ crashes < MaxCrash /\ crashes' = crashes + 1
       /\ rpc' = "down" /\ pc' = "down" /\ queue' = <<>> /\ wrec' = None /\ wpc' = "idle" /\ woff' = 0 /\ so' = 0
Crash ==
  /\ Alive /\ Die
  /\ UNCHANGED <<wal, file, pos, curDisk, curMem, ptr, ctx, cur, completed, opened, edge>>
\* the process dies inside the tmp.data write of the next main-thread step: j complete records, then a partial one
NextRecs(l1, l2) == IF pc = "idle" /\ cur < NB THEN <<R("trie", cur + 1, 1, l1)>>
                    ELSE IF pc = "inserted" THEN <<R("blk", cur, 1, l1), R("acct", cur, 1, l2)>>
                    ELSE IF pc = "conf" THEN <<R("blk", cur, 2, l1)>> ELSE <<>>
TornWalCrash(j, tail, l1, l2) ==
  LET recs == NextRecs(l1, l2)
      fresh == Pending = <<>> IN
  /\ Alive /\ Running /\ recs # <<>> /\ j \in 0..(Len(recs) - 1) /\ tail \in {"eof", "bad", "zero"}
  /\ (Len(recs) = 1 => l2 = "below")
  /\ Budget(recs) /\ edge' = edge + Edge(recs)
  /\ wal' = PutAt(IF fresh THEN <<>> ELSE wal, IF fresh THEN 0 ELSE woff, [recs |-> recs, n |-> j, tail |-> tail, w |-> 0])
  /\ Die
  /\ UNCHANGED <<file, pos, curDisk, curMem, ptr, ctx, cur, completed, opened>>
TornCtxCrash ==                                   \* in-place rewrite of context.data interrupted
  /\ Alive /\ Running /\ pc \in {"ctxhead", "ctxbody"}
  /\ ctx' = IF RepairAtomicContext THEN ctx ELSE TORN      \* write-new + rename: the old file stays whole
  /\ Die
  /\ UNCHANGED <<wal, file, pos, curDisk, curMem, ptr, cur, completed, opened, edge>>

(* ---- recovery: NewChainDataBase, one action per step so that a crash during recovery is an interleaving ---- *)
RStart ==
  /\ rpc = "down" /\ opened = "ok"
  /\ rpc' = "ctx"
  /\ UNCHANGED <<wal, woff, so, queue, wrec, wpc, file, pos, curDisk, curMem, ptr, ctx, pc, cur, completed, opened, crashes, edge>>
RLoadCtx ==                                       \* NewRunContext: a torn context.data panics.  Then the bitcasks reopen at CurrentPos
  /\ rpc = "ctx" /\ opened = "ok"
  /\ IF ctx = TORN THEN opened' = "panic" /\ rpc' = rpc /\ curMem' = curMem
                   ELSE opened' = opened /\ rpc' = "scan" /\ curMem' = curDisk
  /\ UNCHANGED <<wal, woff, so, queue, wrec, wpc, file, pos, curDisk, ptr, ctx, pc, cur, completed, crashes, edge>>
BlocksIn(recs) == {r.b : r \in {x \in ToSet(recs) : x.k = "blk" /\ ~x.bad}}
Max(S) == CHOOSE x \in S : \A y \in S : y <= x
RScanRec ==                                       \* scanFile: one record read at the scan offset, redelivered, offset advanced
  /\ rpc = "scan" /\ opened = "ok"
  /\ LET st == ScanStep(wal, so) IN
       /\ st.t = "rec"
       /\ queue' = queue \o <<st.r>> /\ so' = st.next
  /\ UNCHANGED <<wal, woff, wrec, wpc, file, pos, curDisk, curMem, ptr, ctx, pc, cur, rpc, completed, opened, crashes, edge>>
RScanEnd ==                                       \* the read at the scan offset is no record: the scan ends, Offset stays there
  /\ rpc = "scan" /\ opened = "ok"
  /\ LET st == ScanStep(wal, so) IN
       /\ st.t # "rec"
       /\ IF st.t = "panic"
          THEN /\ opened' = "panic" /\ UNCHANGED <<wal, woff, so, rpc, ptr, ctx>>
          ELSE /\ opened' = opened /\ rpc' = "stable" /\ woff' = so /\ so' = 0
               /\ wal' = IF RepairTornTail THEN CutAt(wal, so) ELSE wal         \* repair: truncate to what was accepted
               /\ IF RepairScanPromotes /\ BlocksIn(queue) # {} /\ Max(BlocksIn(queue)) >= ptr
                  THEN ptr' = Max(BlocksIn(queue)) /\ ctx' = Max(BlocksIn(queue))
                  ELSE ptr' = ptr /\ ctx' = ctx
  /\ UNCHANGED <<queue, wrec, wpc, file, pos, curDisk, curMem, pc, cur, completed, crashes, edge>>
RStable ==                                        \* GetStableBlock: the stable block must decode
  /\ rpc = "stable" /\ opened = "ok"
  /\ IF ptr > 0 /\ ~Good(Read(<<"blk", ptr>>))
     THEN opened' = "panic" /\ rpc' = rpc /\ pc' = pc /\ cur' = cur
     ELSE opened' = opened /\ rpc' = "up" /\ pc' = "idle" /\ cur' = ptr
  /\ UNCHANGED <<wal, woff, so, queue, wrec, wpc, file, pos, curDisk, curMem, ptr, ctx, completed, crashes, edge>>

LC == IF edge >= MaxEdge THEN {"below"} ELSE LenClasses         \* (the budget is spent: nothing else is enabled anyway)
Next == \/ \E b \in 1..NB : SetPtr(b) \/ CtxHead(b) \/ CtxBody(b) \/ SkipConfirm(b)
        \/ \E b \in 1..NB : \E l \in LC : Insert(b, l)
        \/ \E b \in 1..NB : \E l \in LC : Confirm(b, l)
        \/ \E b \in 1..NB : \E l1 \in LC : \E l2 \in LC : Batch(b, l1, l2)
        \/ WTake \/ WData \/ WPos \/ WCur
        \/ Crash \/ TornCtxCrash
        \/ \E j \in 0..1 : \E t \in {"eof", "bad", "zero"} : \E l1 \in LC : \E l2 \in LC : TornWalCrash(j, t, l1, l2)
        \/ RStart \/ RLoadCtx \/ RScanRec \/ RScanEnd \/ RStable
Spec == Init /\ [][Next]_vars

(* ---- C08 ---- *)
\* the database opens again without manual repair
Opens == opened = "ok"
\* it presents a stable block no older than the last one whose promotion had completed
StableNotOlder == ptr >= completed
\* that block, its ancestors, their trie nodes: readable once the node is up ...
StableClosed == rpc = "up" => \A b \in 1..ptr : Good(Read(<<"blk", b>>)) /\ Good(Read(<<"trie", b>>))
\* ... and at every instant recoverable from what is on disk: found by the record-by-record scan of tmp.data as it
\* is now, or through the position index in the data file
OnDisk(S, key) == LET w == LastWith(S, key) IN Good(w) \/ (w = None /\ Good(DiskRead(key)))
DurablyClosed == ptr > 0 => LET S == Scanned(wal) IN \A b \in 1..ptr : OnDisk(S, <<"blk", b>>) /\ OnDisk(S, <<"trie", b>>)
\* every record whose write has returned and that the writer has not yet moved is found by that scan (nothing pending
\* hides behind a boundary record), in the order it was written
RECURSIVE IsSubSeq(_, _)
IsSubSeq(a, b) == IF a = <<>> THEN TRUE ELSE IF b = <<>> THEN FALSE
                  ELSE IF a[1] = b[1] THEN IsSubSeq(Tail(a), Tail(b)) ELSE IsSubSeq(a, Tail(b))
PendingScanned == (rpc \in {"stable", "up"} /\ Pending # <<>>) => IsSubSeq(Pending, Scanned(wal))
\* after the scan the append offset is the end of the records in the file: the next write neither leaves a hole nor
\* overwrites a record
RECURSIVE RecPrefix(_)
RecPrefix(F) == IF F = <<>> \/ F[1].t # "rec" THEN 0 ELSE F[1].s + RecPrefix(Tail(F))
OffsetAtEnd == (RepairTornTail /\ rpc \in {"stable", "up"}) => LET F == FlatE(wal) IN woff = RecPrefix(F) /\ woff = OffOf(F, Len(F) + 1)
\* the three tmp.data clauses in one pass over the file (the big design configurations list this one)
WalClauses == LET F == FlatE(wal)  S == ScanWalk(F, 1, 0, 0) IN
              /\ \A b \in 1..ptr : OnDisk(S, <<"blk", b>>) /\ OnDisk(S, <<"trie", b>>)
              /\ (rpc \in {"stable", "up"} /\ Pending # <<>>) => IsSubSeq(Pending, S)
              /\ (RepairTornTail /\ rpc \in {"stable", "up"}) => woff = RecPrefix(F) /\ woff = OffOf(F, Len(F) + 1)
\* the account data is as of exactly the stable block whenever no promotion is in progress
AcctAsOf == LET r == Read(<<"acct", 0>>) IN IF r = None THEN 0 ELSE IF r.bad THEN TORN ELSE r.b
AccountsExact == (rpc = "up" /\ pc \in {"idle", "inserted", "conf"}) => AcctAsOf = ptr
\* the persisted candidate list is that of the stable block whenever no promotion is in progress
ContextFresh == (rpc = "up" /\ pc \in {"idle", "inserted", "conf"}) => ctx = ptr
TypeOK == /\ ptr \in 0..NB /\ ctx \in 0..TORN /\ cur \in 0..NB /\ curDisk <= Len(file) /\ curMem <= Len(file)
          /\ edge \in 0..MaxEdge /\ so <= TotalSlots(wal) + 1
====
