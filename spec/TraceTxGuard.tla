---- MODULE TraceTxGuard ----
(* C04 judge of traces of the REAL code.

   Layer 1 (adapter txguard, events reset/SaveBlock/SaveAgain/Advance/Restart): after every operation on the real
   txpool.TxGuard the harness asks ExistTxs(P, Q) for every live block P and a menu of transaction lists Q and logs the
   answers.  The monitor keeps the tree of saved blocks and demands of every answer
       TRUE   if a transaction sharing a signed payload with some q in Q (q itself, a sub-transaction of q, a box around
              it, another signature encoding of it) was saved on the ancestor chain of P and q is not yet expired
              for a child of P (a child's timestamp is >= P's);
       FALSE  if nothing on the ancestor chain of P shares a payload with Q (other forks do not count).
   Payload classes, sub-transactions and expirations are those of the real signed transactions (logged at reset).
   Carriers: every block is saved with its transactions in one carrier encoding (4th argument of SaveBlock: how the JSON
   payload of a box - the redundant "hash" member, gasUsed, unknown members, member order, white space - is written) and
   every question is asked in every carrier encoding of the behaviour (field e of an answer).  The demanded answer does
   not mention either: the identity under which the guard files a transaction is a function of its signed content only.

   Layer 2 (adapter replayprot) is judged by TraceTxGuardChain.tla.

   Deviations of the code listed in known_findings.txt (AllowedDev) are accepted only where the correct outcome does
   not match and exactly in the listed form; they are reported through UseDev. *)
EXTENDS TraceBase
CONSTANT AllowedDev
VARIABLES exp, subs, payload, qs,   \* universe of the behaviour (from the real transactions); qs = <<queries, carrier encodings>>
          blocks, stable, dead      \* layer 1: tree of saved blocks [parent, time, txs], stable block, blocks lost by a restart
tvars == <<exp, subs, payload, qs, blocks, stable, dead, l>>
Life == 1800
RECURSIVE AncIn(_, _)
AncIn(bl, b) == IF b = 0 THEN {} ELSE {b} \cup AncIn(bl, bl[b].parent)
LiveIn(bl, st, dd) == {b \in 1..Len(bl) : b \notin dd /\ st \in AncIn(bl, b)}
Closure(x) == {x} \cup ToSet(subs[x])
Effects(x) == {payload[y] : y \in Closure(x)}                    \* signed payloads that take effect when x is executed
Conflict(x, q) == Effects(x) \cap Effects(q) # {}
ConflictH(x, q) == Closure(x) \cap Closure(q) # {}               \* identity by transaction hash: all the code compares
Legal(x, tm) == \A y \in Closure(x) : tm <= exp[y] /\ exp[y] <= tm + Life
CouldCarry(bl, P, q) == \A y \in Closure(q) : bl[P].time <= exp[y]
MustTrue(bl, P, Q, C(_, _)) == \E X \in AncIn(bl, P) : \E x \in bl[X].txs : \E q \in Q : C(x, q) /\ CouldCarry(bl, P, q)
MustFalse(bl, P, Q) == ~ \E X \in AncIn(bl, P) : \E x \in bl[X].txs : \E q \in Q : Conflict(x, q)
\* The log holds one row per (live block p, carrier encoding e): r[k] = ExistTxs(p, query k written in e).  The demanded answer to
\* (p, query k) is computed once - it does not depend on e - and every row must agree with it.
TableOK(bl, st, dd) ==     \* the answers logged with the current line, judged in the tree bl / stable st / lost dd
  LET live == LiveIn(bl, st, dd)
      n == Len(E.ans)
      K == Len(qs[1])
      \* rows of block p whose answer to query k is not the demanded one
      Wrong(p, k) == LET Q == ToSet(qs[1][k])
                         mt == MustTrue(bl, p, Q, Conflict)
                         mf == MustFalse(bl, p, Q) IN
                     {i \in 1..n : E.ans[i].p = p /\ ~((mt => E.ans[i].r[k]) /\ (mf => ~E.ans[i].r[k]))}
      \* Dev_TxMalleableEncoding: FALSE although the payload is on the chain, and no transaction with the same HASH is
      Malleable(p, k) == LET Q == ToSet(qs[1][k]) IN
                         /\ MustTrue(bl, p, Q, Conflict) /\ ~MustTrue(bl, p, Q, ConflictH)
                         /\ \A i \in Wrong(p, k) : ~E.ans[i].r[k] IN
  /\ ToSet(E.live) = live
  /\ {<<E.ans[i].p, E.ans[i].e>> : i \in 1..n} = live \X ToSet(qs[2]) /\ n = Cardinality(live) * Len(qs[2])   \* every live block, every carrier encoding
  /\ \A i \in 1..n : Len(E.ans[i].r) = K                                                                  \* every query
  /\ \A p \in live : \A k \in 1..K :
        \/ Wrong(p, k) = {}
        \/ "Dev_TxMalleableEncoding" \in AllowedDev /\ Malleable(p, k) /\ UseDev("Dev_TxMalleableEncoding")
Fun(o) == [k \in DOMAIN o |-> o[k]]
TReset == /\ Ev("reset")
          /\ E.life = Life
          /\ exp' = Fun(E.exp) /\ subs' = Fun(E.subs) /\ payload' = Fun(E.payload) /\ qs' = <<E.queries, E.encs>>
          /\ blocks' = <<[parent |-> 0, time |-> E.root_time, txs |-> {}]>> /\ stable' = 1 /\ dead' = {}
          /\ ToSet(E.live) = {1}                                                   \* the root carries nothing: every answer is FALSE
          /\ {<<E.ans[i].p, E.ans[i].e>> : i \in 1..Len(E.ans)} = {1} \X ToSet(E.encs) /\ Len(E.ans) = Len(E.encs)
          /\ \A i \in 1..Len(E.ans) : Len(E.ans[i].r) = Len(E.queries) /\ \A k \in 1..Len(E.queries) : ~E.ans[i].r[k]
TSave == /\ Ev("SaveBlock")
         /\ LET p == E.a[1]  tm == E.a[2]  txs == ToSet(E.a[3]) IN
            /\ p \in LiveIn(blocks, stable, dead) /\ tm >= blocks[p].time /\ \A x \in txs : Legal(x, tm)   \* well-formed input
            /\ E.a[4] \in ToSet(qs[2])                                                                    \* the carrier encoding of the block: no demand depends on it
            /\ E.id = Len(blocks) + 1
            /\ blocks' = Append(blocks, [parent |-> p, time |-> tm, txs |-> txs])
         /\ UNCHANGED <<exp, subs, payload, qs, stable, dead>>
         /\ TableOK(blocks', stable, dead)
TAgain == /\ Ev("SaveAgain")
          /\ E.a[1] \in LiveIn(blocks, stable, dead)
          /\ UNCHANGED <<exp, subs, payload, qs, blocks, stable, dead>>
          /\ TableOK(blocks, stable, dead)
TAdvance == /\ Ev("Advance")
            /\ E.a[1] \in LiveIn(blocks, stable, dead) /\ stable' = E.a[1]
            /\ UNCHANGED <<exp, subs, payload, qs, blocks, dead>>
            /\ TableOK(blocks, E.a[1], dead)
TRestart == /\ Ev("Restart")
            /\ dead' = dead \cup ((1..Len(blocks)) \ AncIn(blocks, stable))
            /\ UNCHANGED <<exp, subs, payload, qs, blocks, stable>>
            /\ TableOK(blocks, stable, dead')
TraceNext == TReset \/ TSave \/ TAgain \/ TAdvance \/ TRestart
TraceSpec == /\ l = 1 /\ exp = <<>> /\ subs = <<>> /\ payload = <<>> /\ qs = <<>> /\ blocks = <<>> /\ stable = 0 /\ dead = {}
             /\ [][TraceNext]_tvars
====
