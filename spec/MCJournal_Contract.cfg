SPECIFICATION Spec
CONSTANTS Acct <- AcctC
 KindsOf <- KindsContract
 BaseSet <- BaseContract
 MaxSteps = 6
 MaxSnap = 2
 FreeVals = FALSE
 Dv <- NoDev
INVARIANTS UndoMatchesSaved NoPanic RevsOK DiscardAllIsBase
CHECK_DEADLOCK FALSE
