SPECIFICATION Spec
CONSTANTS Ctx <- McCtxTerm
 Init0 <- McInitStab
 Gas <- McGas
 Devs = {}
 Kinds = {"xfer", "vote", "reg", "topup", "unreg", "setrew"}
 From = {"a1", "a2", "a4", "M1", "I"}
 XTo = {"a1", "a2", "a4", "M1", "M2", "I"}
 XAmt = {0, 100, 450}
 Payers = {"a4"}
 Voters = {"a1", "a2", "a4", "M1", "M2", "I"}
 Cands = {"a1", "a2", "a3", "a4", "M1", "M2"}
 RegAmt = {0, 50, 300}
 AFrom = {}
 ATo = {}
 AAmt = {}
 IAmt = {}
 ACodes = {}
 AIds = {}
 BGL = {}
 BoxFrom = {}
 BoxTo = {}
 BoxSeqs = {}
 SpendFrom = {}
 RewFrom = {"F", "a4"}
 RewTerms = {0, 1}
 RewAmt = {0, 3, 500, 300000, 600000}
 EmptyOK = TRUE
 MaxTx = 3
 MaxBlk = 4
 MaxTot = 6
VIEW View
INVARIANTS NonNegative Conservation DepositsBacked VotesAtBoundary SupplyEqualsEquity NothingForbiddenIncluded
PROPERTIES EndOfBlockIssuesTheReward GasWithinLimit NotIncludedIsFree OnlyOwnEquityDecreases SupplyChangesOnlyByIssuerOrHolder FrozenDoesNotMove
CHECK_DEADLOCK FALSE
