SPECIFICATION Spec
CONSTANTS Atoms = {"a", "b", "c"}
 N = 6
INVARIANTS NodeCount EveryLeafBound ProofsVerify AlteredFails RootBindsList
CHECK_DEADLOCK FALSE
