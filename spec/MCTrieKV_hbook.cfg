SPECIFICATION Spec
CONSTANTS Keys <- Keys2
 Vals = {"L"}
 Path <- McPath
 Variants <- VarNeg
 MaxOld = 2
 ReopenModes = {"same", "fresh", "restart"}
 Ticking = FALSE
 NH = 3
 Vias = {"delete"}
 Flushes = {FALSE, TRUE}
 Merge = TRUE
INVARIANTS TypeOK InsertKeepsCanonical DeleteKeepsCanonical ReadsLastWritten
PROPERTIES OneHandleChanges
CHECK_DEADLOCK FALSE
