SPECIFICATION Spec
CONSTANTS Contracts <- McContracts
 Sender = "U"
 Creators = {"U", "A", "B"}
 Slots <- McSlots
 InitBal <- McInitBalC
 InitStor <- McInitStor
 Kinds <- McKindsC
 Vals = {1}
 SendVals = {0, 1}
 SuicideTo = {"U"}
 G0 = 3
 MaxDepth = 3
 MaxFan = 2
 DepthLimit = 1024
 DevS = FALSE
 DevG = FALSE
 JumpDests = {}
 ShapeAt <- McShapeAt
 DevJ = FALSE
 DevC = FALSE
VIEW ViewNoHist
INVARIANTS StaticIsNoop GasWithinSupplied DepthBound NoCrash JournalMarksOrdered CodeOnlyByCreation
PROPERTIES JumpIsFrameLocal FailedFrameIsNoop OkKeepsEffects GasNeverGrows CollisionIsNoop
CHECK_DEADLOCK FALSE
