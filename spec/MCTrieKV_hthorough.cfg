SPECIFICATION Spec
CONSTANTS Keys <- Keys4
 Vals = {"L"}
 Path <- McPath
 Variants <- VarHAll
 MaxOld = 0
 ReopenModes = {"same"}
 Ticking = FALSE
 NH = 2
 Vias = {"delete"}
 Flushes = {FALSE}
 Merge = TRUE
INVARIANTS TypeOK InsertKeepsCanonical DeleteKeepsCanonical ReadsLastWritten RootBindsContent
PROPERTIES OneHandleChanges
CHECK_DEADLOCK FALSE
