SPECIFICATION Spec
CONSTANTS NC = 2
 K = 1
 MaxVotes = 2
 MaxLive = 3
 MaxSteps = 0
 RestartAnywhere = TRUE
 Touch = {0, 1, 2}
 VMaps = {1, 2, 3, 4, 5, 6}
 Persist = TRUE
 MaxChg = 2
 Dev = {}
INVARIANTS TypeOK TopIsFullSort FileOK
PROPERTIES RestartKeepsTop
CHECK_DEADLOCK FALSE
