SPECIFICATION Spec
CONSTANTS NB = 3
 ND = 3
 NE = 3
 Tx <- McTx
 TxEp <- McTxEp3
 Pend <- McPend
 PruneFirst = FALSE
INVARIANT PoolUpper
PROPERTY PoolLower
INVARIANT HeadOK
INVARIANT UnconfCached
CHECK_DEADLOCK FALSE
