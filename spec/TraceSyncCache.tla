---- MODULE TraceSyncCache ----
(* Traces of the REAL network.BlockCache / network.ConfirmCache (harness/adapters/sync/cache.go) against the
   sorted-multimap model of SyncCacheOps.  One line per SyncCache.tla operation; after every call the harness
   logged the slot layout (read under the cache's lock), what Size / FirstHeight / Iterate say, and the confirm
   cache's content / Size.  Every call must produce exactly the model's result; the API observers must agree with
   the layout; Iterate must visit every cached block once, in ascending height.
   Named deviation Dev_CacheAddMiddle (known_findings.txt): the code's own splice for a new height strictly
   between two slots.  It leaves two slots sharing one map, so the rest of that behaviour is consumed unchecked
   (`tainted`) - except that a panic is still never accepted. *)
EXTENDS TraceBase, SyncCacheOps
CONSTANT AllowedDev
VARIABLES slots, cc, tainted
mvars == <<slots, cc, tainted, l>>
CountIn(s, x) == Cardinality({i \in DOMAIN s : s[i] = x})
SlotsOf(e) == [i \in 1..Len(e.slots) |-> Slot(e.slots[i][1], ToSet(e.slots[i][2]))]
ApiOK(e) == LET s == SlotsOf(e) IN
    /\ \A i \in DOMAIN s : \A b \in s[i].bs : HeightOf(b) = s[i].h
    /\ e.bsize = SizeOf(s) /\ e.first = FirstHeight(s)
    /\ [i \in DOMAIN e.iter |-> HeightOf(e.iter[i])] = IterHeights(s) /\ ToSet(e.iter) = Content(s)
    /\ e.ccsize = Len(e.cc)
\* bag equality of two sequences, after adding `plus` copies of x to the right-hand side
SameBag(s, t) == \A x \in ToSet(s) \cup ToSet(t) : CountIn(s, x) = CountIn(t, x)
BlockOp(e, expected) == SlotsOf(e) = expected /\ ApiOK(e) /\ SameBag(e.cc, cc) /\ slots' = expected /\ cc' = cc /\ tainted' = FALSE
ConfOp(e, expected) == SlotsOf(e) = slots /\ ApiOK(e) /\ SameBag(e.cc, expected) /\ slots' = slots /\ cc' = e.cc /\ tainted' = FALSE

TReset == /\ Ev("reset") /\ E.slots = <<>> /\ E.cc = <<>> /\ ApiOK(E)
          /\ slots' = <<>> /\ cc' = <<>> /\ tainted' = FALSE
TAdd == /\ ~tainted /\ Ev("Add")
        /\ \/ BlockOp(E, AddOK(slots, E.a[1]))
           \/ /\ "Dev_CacheAddMiddle" \in AllowedDev /\ SlotsOf(E) # AddOK(slots, E.a[1])
              /\ IsMiddleNew(slots, E.a[1]) /\ SlotsOf(E) = AddDev(slots, E.a[1])
              /\ UseDev("Dev_CacheAddMiddle")
              /\ slots' = SlotsOf(E) /\ cc' = cc /\ tainted' = TRUE
Sel(sel) == IF sel[1] = "b" THEN {sel[2]} ELSE {b \in Content(slots) : HeightOf(b) <= sel[2]}
TIter == /\ ~tainted /\ Ev("Iter")
         /\ [i \in DOMAIN E.visited |-> HeightOf(E.visited[i])] = IterHeights(slots)      \* ascending, slot by slot
         /\ ToSet(E.visited) = Content(slots) /\ Len(E.visited) = SizeOf(slots)              \* every cached block exactly once
         /\ BlockOp(E, IterRemove(slots, Sel(E.a[1])))
TRemove == ~tainted /\ Ev("Remove") /\ BlockOp(E, RemoveBlock(slots, E.a[1]))
TClear == ~tainted /\ Ev("Clear") /\ BlockOp(E, ClearUpTo(slots, E.a[1]))
TPush == ~tainted /\ Ev("Push") /\ ConfOp(E, Append(cc, E.a[1]))
IsKey(x, hk) == x[1] = hk[1] /\ x[2] = hk[2]
TPop == /\ ~tainted /\ Ev("Pop")
        /\ SameBag(E.popped, SelectSeq(cc, LAMBDA x : IsKey(x, E.a[1])))                     \* everything cached for that block, nothing else
        /\ ConfOp(E, SelectSeq(cc, LAMBDA x : ~IsKey(x, E.a[1])))
TCClear == ~tainted /\ Ev("CClear") /\ ConfOp(E, SelectSeq(cc, LAMBDA x : x[1] > E.a[1]))
TSkip == tainted /\ l <= Len(Trace) /\ Trace[l].ev # "reset" /\ "panic" \notin DOMAIN Trace[l] /\ l' = l + 1 /\ UNCHANGED <<slots, cc, tainted>>
TraceNext == TReset \/ TAdd \/ TIter \/ TRemove \/ TClear \/ TPush \/ TPop \/ TCClear \/ TSkip
TraceSpec == l = 1 /\ slots = <<>> /\ cc = <<>> /\ tainted = FALSE /\ [][TraceNext]_mvars
====
