SPECIFICATION Spec
CONSTANTS NB = 3
 Confs <- McNone
 NT = 3
 MaxDup = 1
 BugAddMiddle = FALSE
 BugTxLoopVar = TRUE
INVARIANTS TxOnce
PROPERTY Forward
CHECK_DEADLOCK FALSE
