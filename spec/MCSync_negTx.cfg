SPECIFICATION Spec
CONSTANTS NB = 3
 Confs <- McNone
 NT = 3
 MaxDup = 1
 Races = TRUE
 BugAddMiddle = FALSE
 BugTxLoopVar = TRUE
 BugConfirmRace = FALSE
 MaxBatch = 0
 NBatch = 0
 BugBatchBreak = FALSE
INVARIANTS TxOnce
PROPERTY Forward
CHECK_DEADLOCK FALSE
