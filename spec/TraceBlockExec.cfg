SPECIFICATION TraceSpec
CONSTANTS MaxCands = 3
 MaxBlocks = 2
CONSTRAINT HW
POSTCONDITION Accepted
CHECK_DEADLOCK FALSE
