SPECIFICATION Spec
CONSTANTS NB = 2
 MaxCrash = 2
 RepairTornTail = TRUE
 RepairAtomicContext = TRUE
 RepairScanPromotes = FALSE
INVARIANTS ContextFresh
CHECK_DEADLOCK FALSE
