---- MODULE CodecShapesSlots ----
(* C14, part 3: canonicity of the TYPED decoders and the numeric boundary values.

   Part 1 (Rlp.tla) says what the canonical encoding of a string / list is; part 2 (CodecShapes.tla)
   round-trips honest values.  This module puts the two together: every hashed or signed consensus
   type is a *descriptor* - a tree of field kinds read off the real types' field layouts -

       U(w)  unsigned integer of at most w bytes      Arr(n)   [n]byte (hash, address, signature)
       BigD  *big.Int / big.Int                       Opt(n)   *[n]byte tagged rlp:"nil" (gas payer, recipient)
       BytesD []byte / string                         RootD    header root (the empty-trie hash is elided)
       BoolD bool                                     FixP(n)  change-log payload holding a hash / an address
       ListOf(d), Struct(<<d..>>)                     NilD     nil interface payload (the empty list)
       OptStruct(<<d..>>), OList(d)                   optional payloads (nil pointer / empty container = the empty list)
       PairsD  a Profile: list of (key, value) pairs, keys strictly ascending
       LogD    a change log: payload descriptors follow from the type number on the wire

   and Acc(d, v, D) says which decoded RLP values v (Rlp!Decode, i.e. canonical at the primitive
   level already) a decoder of type d may accept: exactly the ones that are the encoding of a value
   of that type.  Canon(d, v, D) is the encoding of the value the decoder builds from v.  The
   property at this level is   Acc(d, v, {}) => Canon(d, v, {}) = v   (InvSlotCanon): whatever the
   typed decoder accepts re-encodes to the offered bytes, hence two different accepted byte strings
   never decode to equal values.  D is a set of named deviations; with one of them switched on Acc /
   Canon describe what the code really does and the invariant fails (negative control).

   A *slot* is (type, instance, path, offer): the honest encoding of an instance of the type, with
   the item at a path (field position, list element, field of an element) replaced by a primitive
   encoding class (OfferBytes).  TLC enumerates all slots; the Go driver builds the same strings
   from REAL honest encodings and hands them to the REAL typed decoders; TraceCodecShapes demands
   that the real decoder accepts exactly when Acc does and re-encodes what it accepted to the
   offered bytes.

   The second half are the numeric boundary values: every numeric field of every type takes every
   value of NumVals through every encoding the type has (RLP and JSON); a value that fits the
   field must survive both with equal value and hash, one that does not must be refused by both. *)
EXTENDS CodecShapes, Rlp

Rep(n, c) == [i \in 1..n |-> c]
EmptyTrieHash == <<197, 210, 70, 1, 134, 247, 35, 60, 146, 126, 125, 178, 220, 199, 3, 192,
                   229, 0, 182, 83, 202, 130, 39, 59, 123, 250, 216, 4, 93, 133, 164, 112>>

\* ------------------------------------------------------------------ descriptors
Dsc(k, n, of) == [k |-> k, n |-> n, of |-> of]
U(w)          == Dsc("u", w, <<>>)
BigD          == Dsc("big", 0, <<>>)
BytesD        == Dsc("bytes", 0, <<>>)
BoolD         == Dsc("bool", 0, <<>>)
Arr(n)        == Dsc("arr", n, <<>>)
Opt(n)        == Dsc("opt", n, <<>>)
RootD         == Dsc("root", 32, <<>>)
FixP(n)       == Dsc("fixp", n, <<>>)
NilD          == Dsc("nil", 0, <<>>)
ListOf(d)     == Dsc("list", 0, <<d>>)
OList(d)      == Dsc("olist", 0, <<d>>)
Struct(fs)    == Dsc("struct", 0, fs)
OptStruct(fs) == Dsc("ostruct", 0, fs)
PairsD        == Dsc("pairs", 0, <<>>)
LogD          == Dsc("log", 0, <<>>)
PairD         == Struct(<<BytesD, BytesD>>)

\* field layouts of the real types (checked against the real encodings: every honest encoding must be accepted)
TxFields     == <<U(2), U(1), U(2), Arr(20), Opt(20), Opt(20), BytesD, BigD, U(8), U(8), BigD, BytesD, U(8), BytesD,
                  ListOf(BytesD), ListOf(BytesD)>>
HeaderFields == <<Arr(32), Arr(20), Arr(32), RootD, RootD, U(4), U(8), U(8), U(4), BytesD, BytesD, BytesD>>
DeputyFields == <<Arr(20), BytesD, U(4), BigD>>
AssetFields  == <<U(4), BoolD, Arr(32), U(4), BigD, BoolD, Arr(20), PairsD>>
EquityFields == <<Arr(32), Arr(32), BigD>>
EventFields  == <<Arr(20), ListOf(Arr(32)), BytesD>>
SignFields   == <<Arr(20), U(1)>>
TxD     == Struct(TxFields)
HeaderD == Struct(HeaderFields)
DeputyD == Struct(DeputyFields)
AssetD  == Struct(AssetFields)
EquityD == Struct(EquityFields)
BlockD  == Struct(<<HeaderD, ListOf(TxD), ListOf(LogD), ListOf(Arr(65)), ListOf(DeputyD)>>)
\* the account record is stored, not hashed or signed: it takes part in the numeric cases only (rlpAccountData; the transaction list
\* and count of older versions are still on the wire, always empty)
AccountD == Struct(<<Arr(20), BigD, Arr(32), Arr(32), Arr(32), Arr(32), Arr(32), ListOf(Arr(32)), Arr(20), Struct(<<BigD, PairsD>>), U(4),
                     ListOf(Struct(<<U(4), U(4), U(4)>>)), ListOf(Struct(SignFields))>>)

\* wire messages whose fields are heights / counters (plain reflection codecs; sent, not hashed or signed: numeric cases only)
StatusFields == <<U(4), Arr(32), U(4), Arr(32)>>
MsgNames == {"handshake", "status", "getstatus", "blockhash", "getblocks", "getsingle", "getconfirm", "discreq", "confirm", "confirms"}
MsgD(m) ==
  CASE m = "handshake"  -> Struct(<<U(2), Arr(32), U(4), Struct(StatusFields)>>)
    [] m = "status"     -> Struct(StatusFields)
    [] m = "getstatus"  -> Struct(<<U(4)>>)
    [] m = "blockhash"  -> Struct(<<U(4), Arr(32)>>)
    [] m = "getblocks"  -> Struct(<<U(4), U(4)>>)
    [] m = "getsingle"  -> Struct(<<Arr(32), U(4)>>)
    [] m = "getconfirm" -> Struct(<<U(4), Arr(32)>>)
    [] m = "discreq"    -> Struct(<<U(8)>>)
    [] m = "confirm"    -> Struct(<<Arr(32), U(4), Arr(65)>>)
    [] m = "confirms"   -> Struct(<<U(4), Arr(32), ListOf(Arr(65))>>)

LogNum(t) ==
  CASE t = "BalanceLog" -> 1 [] t = "StorageLog" -> 2 [] t = "StorageRootLog" -> 3 [] t = "AssetCodeLog" -> 4
    [] t = "AssetCodeStateLog" -> 5 [] t = "AssetCodeRootLog" -> 6 [] t = "AssetCodeTotalSupplyLog" -> 7
    [] t = "AssetIdLog" -> 8 [] t = "AssetIdRootLog" -> 9 [] t = "EquityLog" -> 10 [] t = "EquityRootLog" -> 11
    [] t = "CandidateLog" -> 12 [] t = "CandidateStateLog" -> 13 [] t = "CodeLog" -> 14 [] t = "AddEventLog" -> 15
    [] t = "SuicideLog" -> 16 [] t = "VoteForLog" -> 17 [] t = "VotesLog" -> 18 [] t = "SignerLog" -> 19
LogOfNum(n) == CHOOSE t \in LogTypes : LogNum(t) = n
\* descriptor of a payload kind (NewKind / ExtraKind of CodecShapes)
PayD(kind) ==
  CASE kind = "big" -> BigD
    [] kind \in {"blob", "code", "text"} -> BytesD
    [] kind = "hash" -> FixP(32)
    [] kind = "addr" -> FixP(20)
    [] kind = "asset" -> OptStruct(AssetFields)
    [] kind = "equity" -> OptStruct(EquityFields)
    [] kind = "profile" -> PairsD
    [] kind = "event" -> Struct(EventFields)
    [] kind = "signers" -> OList(Struct(SignFields))
    [] kind = "pextra" -> OptStruct(<<Arr(32), BytesD>>)
    [] kind = "none" -> NilD
LogStruct(t) == Struct(<<U(4), Arr(20), U(4), PayD(NewKind(t)), PayD(ExtraKind(t))>>)

SlotTypes == {"tx", "header", "deputy", "asset", "equity", "block", "log"}
\* the descriptor the decoder of a type works by, and the (static) one that names the kinds of its positions
TopDesc(typ, t) ==
  CASE typ = "tx" -> TxD [] typ = "header" -> HeaderD [] typ = "deputy" -> DeputyD [] typ = "asset" -> AssetD
    [] typ = "equity" -> EquityD [] typ = "block" -> BlockD [] typ = "log" -> LogD [] typ = "account" -> AccountD
    [] typ = "msg" -> MsgD(t)
PosDesc(typ, t) == IF typ = "log" THEN LogStruct(t) ELSE TopDesc(typ, t)

RECURSIVE DescAt(_, _)
DescAt(d, p) ==
  IF p = <<>> THEN d
  ELSE IF d.k \in {"list", "olist"} THEN DescAt(d.of[1], Tail(p))
  ELSE IF d.k \in {"struct", "ostruct"} /\ p[1] <= Len(d.of) THEN DescAt(d.of[p[1]], Tail(p))
  ELSE IF d.k = "pairs" THEN DescAt(PairD, Tail(p))
  ELSE BytesD                                   \* inside a change log of a block etc.: no size to aim at

\* ------------------------------------------------------------------ deviations of the real decoders (see known_findings.txt)
EV == "Dev_EmptyValueAnyKind"        \* "is it empty" is decided by the size alone: 0x80, 0xc0 and a single byte below 0x80 all are
FX == "Dev_FixedBytesAnyLength"      \* hashes / addresses read through []byte + BytesToHash: any length is padded or cropped
PO == "Dev_ProfilePairsAnyOrder"     \* Profile pairs are read into a map: any order, repeated keys
SlotDevs == {EV, FX, PO}

SizeZero(v) == \/ v.k = "str" /\ (v.b = <<>> \/ (Len(v.b) = 1 /\ v.b[1] < 128))
               \/ v.k = "list" /\ v.e = <<>>
FixTo(b, n) == IF Len(b) >= n THEN SubSeq(b, Len(b) - n + 1, Len(b)) ELSE Rep(n - Len(b), 0) \o b

\* byte strings in lexicographic order (Go's string comparison)
RECURSIVE Less(_, _)
Less(a, b) == IF b = <<>> THEN FALSE
              ELSE IF a = <<>> THEN TRUE
              ELSE IF a[1] # b[1] THEN a[1] < b[1]
              ELSE Less(Tail(a), Tail(b))
IsPair(v) == v.k = "list" /\ Len(v.e) = 2 /\ v.e[1].k = "str" /\ v.e[2].k = "str"
Ascending(es) == \A i \in 1..(Len(es) - 1) : Less(es[i].e[1].b, es[i + 1].e[1].b)

\* ------------------------------------------------------------------ what a typed decoder accepts
\* a struct is a list of exactly its fields (the size-only emptiness test of Profile.DecodeRLP also takes "no item at all", so
\* with EV a struct that ends in a Profile may lack it)
Arity(d, v, D) == \/ Len(v.e) = Len(d.of)
                  \/ EV \in D /\ Len(v.e) = Len(d.of) - 1 /\ d.of[Len(d.of)].k = "pairs"
RECURSIVE Acc(_, _, _)
Acc(d, v, D) ==
  CASE d.k = "u"     -> AsUint(v, d.n).ok
    [] d.k = "big"   -> AsUint(v, 0).ok
    [] d.k = "bytes" -> v.k = "str"
    [] d.k = "bool"  -> AsBool(v).ok
    [] d.k = "arr"   -> AsArray(v, d.n).ok
    [] d.k = "opt"   -> \/ v = Str(<<>>)
                        \/ AsArray(v, d.n).ok
                        \/ EV \in D /\ v = Lst(<<>>)
    [] d.k = "root"  -> \/ v = Str(<<>>)
                        \/ AsArray(v, 32).ok /\ v.b # EmptyTrieHash
                        \/ FX \in D /\ v.k = "str"
    [] d.k = "fixp"  -> \/ AsArray(v, d.n).ok
                        \/ FX \in D /\ v.k = "str"
    [] d.k = "nil"   -> \/ v = Lst(<<>>)
                        \/ EV \in D /\ SizeZero(v)
    [] d.k = "list"  -> v.k = "list" /\ \A i \in 1..Len(v.e) : Acc(d.of[1], v.e[i], D)
    [] d.k = "olist" -> \/ v.k = "list" /\ \A i \in 1..Len(v.e) : Acc(d.of[1], v.e[i], D)
                        \/ EV \in D /\ SizeZero(v)
    [] d.k = "struct" -> v.k = "list" /\ Arity(d, v, D) /\ \A i \in 1..Len(v.e) : Acc(d.of[i], v.e[i], D)
    [] d.k = "ostruct" -> \/ v = Lst(<<>>)
                          \/ v.k = "list" /\ Arity(d, v, D) /\ \A i \in 1..Len(v.e) : Acc(d.of[i], v.e[i], D)
                          \/ EV \in D /\ SizeZero(v)
    [] d.k = "pairs" -> \/ v.k = "list" /\ (\A i \in 1..Len(v.e) : IsPair(v.e[i])) /\ (PO \in D \/ Ascending(v.e))
                        \/ EV \in D /\ SizeZero(v)
    [] d.k = "log"   -> /\ v.k = "list" /\ Len(v.e) = 5 /\ AsUint(v.e[1], 4).ok
                        /\ Num(v.e[1].b) \in 1..19
                        /\ Acc(LogStruct(LogOfNum(Num(v.e[1].b))), v, D)

\* ------------------------------------------------------------------ the encoding of the value the decoder builds
\* a map built from pairs in wire order (later entries win), written back with ascending keys
RECURSIVE PutPair(_, _), SortPairs(_)
PutPair(sorted, p) ==
  IF sorted = <<>> THEN <<p>>
  ELSE IF sorted[1].e[1].b = p.e[1].b THEN <<p>> \o Tail(sorted)
  ELSE IF Less(p.e[1].b, sorted[1].e[1].b) THEN <<p>> \o sorted
  ELSE <<sorted[1]>> \o PutPair(Tail(sorted), p)
SortPairs(es) == IF es = <<>> THEN <<>> ELSE PutPair(SortPairs(SubSeq(es, 1, Len(es) - 1)), es[Len(es)])

RECURSIVE Canon(_, _, _)
Canon(d, v, D) ==
  CASE d.k \in {"u", "big", "bytes", "bool", "arr"} -> v
    [] d.k = "opt"   -> IF v.k = "str" /\ v.b # <<>> THEN v ELSE Str(<<>>)                \* nil pointer
    [] d.k = "root"  -> LET h == IF v.b = <<>> THEN EmptyTrieHash ELSE FixTo(v.b, 32) IN
                          IF h = EmptyTrieHash THEN Str(<<>>) ELSE Str(h)
    [] d.k = "fixp"  -> Str(FixTo(v.b, d.n))
    [] d.k = "nil"   -> Lst(<<>>)
    [] d.k = "list"  -> Lst([i \in 1..Len(v.e) |-> Canon(d.of[1], v.e[i], D)])
    [] d.k = "olist" -> IF SizeZero(v) THEN Lst(<<>>) ELSE Lst([i \in 1..Len(v.e) |-> Canon(d.of[1], v.e[i], D)])
    [] d.k = "struct" -> Lst([i \in 1..Len(d.of) |-> IF i <= Len(v.e) THEN Canon(d.of[i], v.e[i], D) ELSE Lst(<<>>)])
    [] d.k = "ostruct" -> IF SizeZero(v) THEN Lst(<<>>)
                          ELSE Lst([i \in 1..Len(d.of) |-> IF i <= Len(v.e) THEN Canon(d.of[i], v.e[i], D) ELSE Lst(<<>>)])
    [] d.k = "pairs" -> IF SizeZero(v) THEN Lst(<<>>) ELSE Lst(SortPairs(v.e))
    [] d.k = "log"   -> Canon(LogStruct(LogOfNum(Num(v.e[1].b))), v, D)

\* the property at the level of the typed decoders
TypedCanon(d, v, D) == Acc(d, v, D) => Canon(d, v, D) = v

\* ------------------------------------------------------------------ slots: an honest encoding with one item replaced
RECURSIVE At(_, _)
At(v, p) == IF p = <<>> THEN v ELSE At(v.e[p[1]], Tail(p))
Resolves(v, p) == \A n \in 1..Len(p) : LET w == At(v, SubSeq(p, 1, n - 1)) IN w.k = "list" /\ p[n] <= Len(w.e)
RECURSIVE Flat(_)
Flat(ss) == IF ss = <<>> THEN <<>> ELSE ss[1] \o Flat(Tail(ss))
\* the encoding of v with the item at path p replaced by the raw bytes (all enclosing list headers canonical)
RECURSIVE EncWith(_, _, _)
EncWith(v, p, raw) ==
  IF p = <<>> THEN raw
  ELSE LET pl == Flat([i \in 1..Len(v.e) |-> IF i = p[1] THEN EncWith(v.e[i], Tail(p), raw) ELSE Encode(v.e[i])]) IN
         Prefix(192, Len(pl)) \o pl

\* the primitive encoding classes offered in a slot
Offers == {"honest", "gone", "dup", "plus", "trunc",
           "e", "b00", "b01", "b7f", "s80", "sff", "w00", "w7f",            \* empty string, single bytes, wrapped single bytes
           "el", "l1e", "l1b", "l2",                                        \* lists where a string is expected (and v.v.)
           "lz", "nm", "nm80", "nml", "lenlz", "s55", "s56",                 \* leading zero, non-minimal length forms, 55/56 boundary
           "inlist", "retag",                                                \* the honest item with the other kind
           "nm1", "n", "np1", "nz", "n0", "nmax",                            \* aimed at the size of the field: n-1, n, n+1 bytes
           "et",                                                             \* the empty-trie hash written out
           "swap", "dupel"}                                                  \* list elements exchanged / repeated
SizeOf(d) == IF d.k \in {"arr", "opt", "root", "fixp", "u"} THEN d.n ELSE 3
Sized(n, first) == IF n <= 0 THEN <<128>> ELSE Encode(Str(<<first>> \o Rep(n - 1, 171)))
Retag(item) == LET s == Split(item) IN
                 IF ~s.ok THEN item
                 ELSE IF s.kind = "list" THEN Prefix(128, Len(s.content)) \o s.content
                 ELSE Prefix(192, Len(s.content)) \o s.content
ListEdit(item, off) ==
  LET v == Decode(item) IN
    IF v.k # "list" \/ v.e = <<>> THEN item
    ELSE IF off = "dupel" THEN Encode(Lst(<<v.e[1]>> \o v.e))
    ELSE IF Len(v.e) < 2 THEN item
    ELSE Encode(Lst(<<v.e[2], v.e[1]>> \o SubSeq(v.e, 3, Len(v.e))))
OfferBytes(off, d, item) ==
  CASE off = "honest" -> item
    [] off = "gone"   -> <<>>
    [] off = "dup"    -> item \o item
    [] off = "plus"   -> item \o <<128>>
    [] off = "trunc"  -> SubSeq(item, 1, Len(item) - 1)
    [] off = "e"      -> <<128>>
    [] off = "b00"    -> <<0>>
    [] off = "b01"    -> <<1>>
    [] off = "b7f"    -> <<127>>
    [] off = "s80"    -> <<129, 128>>
    [] off = "sff"    -> <<129, 255>>
    [] off = "w00"    -> <<129, 0>>
    [] off = "w7f"    -> <<129, 127>>
    [] off = "el"     -> <<192>>
    [] off = "l1e"    -> <<193, 128>>
    [] off = "l1b"    -> <<193, 1>>
    [] off = "l2"     -> <<194, 1, 128>>
    [] off = "lz"     -> <<130, 0, 1>>
    [] off = "nm"     -> <<184, 2, 1, 2>>
    [] off = "nm80"   -> <<184, 1, 128>>
    [] off = "nml"    -> <<248, 1, 128>>
    [] off = "lenlz"  -> <<185, 0, 56>> \o Rep(56, 7)
    [] off = "s55"    -> Encode(Str(Rep(55, 7)))
    [] off = "s56"    -> Encode(Str(Rep(56, 7)))
    [] off = "inlist" -> Prefix(192, Len(item)) \o item
    [] off = "retag"  -> Retag(item)
    [] off = "nm1"    -> Sized(SizeOf(d) - 1, 171)
    [] off = "n"      -> Sized(SizeOf(d), 171)
    [] off = "np1"    -> Sized(SizeOf(d) + 1, 171)
    [] off = "nz"     -> Sized(SizeOf(d), 0)
    [] off = "n0"     -> Encode(Str(Rep(SizeOf(d), 0)))
    [] off = "nmax"   -> Encode(Str(Rep(SizeOf(d), 255)))
    [] off = "et"     -> Encode(Str(EmptyTrieHash))
    [] off \in {"swap", "dupel"} -> ListEdit(item, off)

\* the byte string of a slot, given the decoded honest encoding H
SlotBytes(H, pd, p, off) == EncWith(H, p, OfferBytes(off, DescAt(pd, p), Encode(At(H, p))))

\* ------------------------------------------------------------------ model instances (design side): templates built from the descriptors
Insts == {"full", "empty"}
RECURSIVE Tmpl(_, _)
Tmpl(d, inst) ==
  LET full == inst = "full" IN
  CASE d.k = "u"     -> IF full THEN Str(Rep(d.n, 200)) ELSE Str(<<>>)
    [] d.k = "big"   -> IF full THEN Str(<<200, 1, 2>>) ELSE Str(<<>>)
    [] d.k = "bytes" -> IF full THEN Str(<<65, 66, 67>>) ELSE Str(<<>>)
    [] d.k = "bool"  -> IF full THEN Str(<<1>>) ELSE Str(<<>>)
    [] d.k \in {"arr", "fixp"} -> IF full THEN Str(Rep(d.n, 171)) ELSE Str(Rep(d.n, 0))
    [] d.k \in {"opt", "root"} -> IF full THEN Str(Rep(d.n, 171)) ELSE Str(<<>>)
    [] d.k = "nil"   -> Lst(<<>>)
    [] d.k \in {"list", "olist"} -> IF full THEN Lst(<<Tmpl(d.of[1], inst), Tmpl(d.of[1], inst)>>) ELSE Lst(<<>>)
    [] d.k = "struct" -> Lst([i \in 1..Len(d.of) |-> Tmpl(d.of[i], inst)])
    [] d.k = "ostruct" -> IF full THEN Lst([i \in 1..Len(d.of) |-> Tmpl(d.of[i], inst)]) ELSE Lst(<<>>)
    [] d.k = "pairs" -> IF full THEN Lst(<<Lst(<<Str(<<97>>), Str(<<120>>)>>), Lst(<<Str(<<98, 99>>), Str(<<>>)>>)>>) ELSE Lst(<<>>)
    [] d.k = "log"   -> Lst(<<Str(<<1>>), Str(Rep(20, 171)), Str(<<5>>), Str(<<200, 1>>), Lst(<<>>)>>)   \* a BalanceLog
\* the template of a change log of type t carries its own type number
TmplOf(typ, t, inst) ==
  IF typ = "log" THEN LET w == Tmpl(LogStruct(t), inst) IN Lst(<<Str(<<LogNum(t)>>)>> \o Tail(w.e))
  ELSE Tmpl(TopDesc(typ, t), inst)

\* paths of an instance: every field position, the elements of every list and - below the FIRST element of a list and
\* below every field of a struct - the same again, down to the given depth (a change log inside a block is a leaf)
SubDesc(d, i) == IF d.k \in {"list", "olist"} THEN d.of[1]
                 ELSE IF d.k = "pairs" THEN PairD
                 ELSE IF d.k \in {"struct", "ostruct"} /\ i <= Len(d.of) THEN d.of[i]
                 ELSE BytesD
RECURSIVE PathsOf(_, _, _)
PathsOf(d, v, depth) ==
  IF depth = 0 \/ v.k # "list" \/ d.k \in {"log", "bytes"} THEN {<<>>}
  ELSE {<<>>} \cup UNION {{<<i>> \o q : q \in (IF d.k \in {"list", "olist", "pairs"} /\ i > 1 THEN {<<>>}
                                                 ELSE PathsOf(SubDesc(d, i), v.e[i], depth - 1))} : i \in 1..Len(v.e)}
SlotDepth(typ) == IF typ \in {"block", "log", "asset"} THEN 3 ELSE 2
SlotPaths(typ, t, inst) == PathsOf(PosDesc(typ, t), TmplOf(typ, t, inst), SlotDepth(typ))

\* ------------------------------------------------------------------ numeric boundary values
NumVals == {"0", "1", "127", "128", "255", "256", "65535", "65536", "2^32-1", "2^32", "2^64-1", "2^64",
            "10^77-1", "10^77", "2^255", "2^256-1", "2^256"}
NumOf(v) ==
  CASE v = "0" -> [be |-> <<>>, dec |-> "0"]
    [] v = "1" -> [be |-> <<1>>, dec |-> "1"]
    [] v = "127" -> [be |-> <<127>>, dec |-> "127"]
    [] v = "128" -> [be |-> <<128>>, dec |-> "128"]
    [] v = "255" -> [be |-> <<255>>, dec |-> "255"]
    [] v = "256" -> [be |-> <<1, 0>>, dec |-> "256"]
    [] v = "65535" -> [be |-> <<255, 255>>, dec |-> "65535"]
    [] v = "65536" -> [be |-> <<1, 0, 0>>, dec |-> "65536"]
    [] v = "2^32-1" -> [be |-> <<255, 255, 255, 255>>, dec |-> "4294967295"]
    [] v = "2^32" -> [be |-> <<1, 0, 0, 0, 0>>, dec |-> "4294967296"]
    [] v = "2^64-1" -> [be |-> <<255, 255, 255, 255, 255, 255, 255, 255>>, dec |-> "18446744073709551615"]
    [] v = "2^64" -> [be |-> <<1, 0, 0, 0, 0, 0, 0, 0, 0>>, dec |-> "18446744073709551616"]
    [] v = "10^77-1" -> [be |-> <<221, 21, 254, 134, 175, 250, 217, 18, 73, 239, 14, 183, 19, 243, 158, 190, 170, 152, 123, 110, 111, 210, 159, 255, 255, 255, 255, 255, 255, 255, 255, 255>>, dec |-> "99999999999999999999999999999999999999999999999999999999999999999999999999999"]
    [] v = "10^77" -> [be |-> <<221, 21, 254, 134, 175, 250, 217, 18, 73, 239, 14, 183, 19, 243, 158, 190, 170, 152, 123, 110, 111, 210, 160, 0, 0, 0, 0, 0, 0, 0, 0, 0>>, dec |-> "100000000000000000000000000000000000000000000000000000000000000000000000000000"]
    [] v = "2^255" -> [be |-> <<128>> \o Rep(31, 0), dec |-> "57896044618658097711785492504343953926634992332820282019728792003956564819968"]
    [] v = "2^256-1" -> [be |-> Rep(32, 255), dec |-> "115792089237316195423570985008687907853269984665640564039457584007913129639935"]
    [] v = "2^256" -> [be |-> <<1>> \o Rep(32, 0), dec |-> "115792089237316195423570985008687907853269984665640564039457584007913129639936"]

\* numeric fields: path in the RLP layout (<<>>: the type has no RLP form), path of member names / indices in the JSON form
\* (<<>>: no JSON form), width in bytes (0: big)
NF(path, jp, w) == [path |-> path, jp |-> jp, w |-> w]
NumTypes == {"tx", "header", "deputy", "asset", "equity", "log", "account", "msg", "issueAsset", "replenishAsset", "transferAsset"}
\* tx.Version is left out: Transaction.UnmarshalJSON demands the current version by design, the RLP form does not
NumFields(typ, t) ==
  CASE typ = "tx" -> {NF(<<1>>, <<"type">>, 2), NF(<<3>>, <<"chainID">>, 2), NF(<<8>>, <<"gasPrice">>, 0), NF(<<9>>, <<"gasLimit">>, 8),
                      NF(<<10>>, <<"gasUsed">>, 8), NF(<<11>>, <<"amount">>, 0), NF(<<13>>, <<"expirationTime">>, 8)}
    [] typ = "header" -> {NF(<<6>>, <<"height">>, 4), NF(<<7>>, <<"gasLimit">>, 8), NF(<<8>>, <<"gasUsed">>, 8), NF(<<9>>, <<"timestamp">>, 4)}
    [] typ = "deputy" -> {NF(<<3>>, <<"rank">>, 4), NF(<<4>>, <<"votes">>, 0)}
    [] typ = "asset"  -> {NF(<<1>>, <<"category">>, 4), NF(<<4>>, <<"decimal">>, 4), NF(<<5>>, <<"totalSupply">>, 0)}
    [] typ = "equity" -> {NF(<<3>>, <<"equity">>, 0)}
    \* the full account instance holds one record (of change-log type 1) and two signers
    [] typ = "account" -> {NF(<<2>>, <<"balance">>, 0), NF(<<10, 1>>, <<"candidate", "votes">>, 0),
                           NF(<<12, 1, 2>>, <<"records", "1", "version">>, 4), NF(<<12, 1, 3>>, <<"records", "1", "height">>, 4),
                           NF(<<13, 1, 2>>, <<"signers", "0", "weight">>, 1)}
    [] typ = "log"    -> {NF(<<3>>, <<>>, 4)} \cup (IF NewKind(t) = "big" THEN {NF(<<4>>, <<>>, 0)} ELSE {})
    [] typ = "msg"    -> {NF(p, <<>>, DescAt(MsgD(t), p).n) : p \in {q \in {<<1>>, <<2>>, <<3>>, <<4, 1>>, <<4, 3>>} :
                                                                      /\ q[1] <= Len(MsgD(t).of)
                                                                      /\ (Len(q) = 2 => MsgD(t).of[q[1]].k = "struct")
                                                                      /\ DescAt(MsgD(t), q).k = "u"}}
    [] typ = "issueAsset" -> {NF(<<>>, <<"supplyAmount">>, 0)}
    [] typ = "replenishAsset" -> {NF(<<>>, <<"replenishAmount">>, 0)}
    [] typ = "transferAsset" -> {NF(<<>>, <<"transferAmount">>, 0)}
Fits(val, w) == w = 0 \/ Len(NumOf(val).be) <= w
\* the layout and the table of numeric fields agree
NumFieldsDeclared(typ, t) ==
  \A f \in NumFields(typ, t) : f.path # <<>> =>
     LET d == DescAt(PosDesc(typ, t), f.path) IN IF f.w = 0 THEN d.k = "big" ELSE d.k = "u" /\ d.n = f.w
====
