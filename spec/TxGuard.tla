---- MODULE TxGuard ----
(* C04 layer 1: the replay cache chain/txpool.TxGuard (tx_guard.go, block_cache.go, time_bucket.go, tx_tracer.go),
   implementation-shaped: 60-second time buckets holding block ids, a block cache, a tracer  tx key -> blocks,
   pruning by DelOldBlocks(stable.time) and the reload of chain.initTxPool after a restart.

   Universe: one signed payload in two encodings "t" / "t2" (t2 = the s -> n-s re-encoded signature: other bytes,
   other tx hash, same signer, same payload), a box "b" whose only sub-transaction is t, an unrelated "u".
   A block carries a set of these; the tree of blocks grows by SaveBlock, the stable block advances (Advance =
   DelOldBlocks(time of the new stable block)), the node restarts (Restart = NewTxGuard + reload of the last 1800 s of
   the stable chain; unstable blocks are gone).

   Property level (what the validator needs from the guard; section "answers" below):
     ExistTxs(P, Q) must be TRUE  when a transaction that shares a payload with some q in Q was saved on the
                                  ancestor chain of P and q is not yet expired for a child of P;
     ExistTxs(P, Q) must be FALSE when nothing on the ancestor chain of P shares a payload with Q (other forks do
                                  not count: what was executed only on an abandoned fork may be executed again).
   HashCoversSig = TRUE is the code as written (identity of a transaction = hash over the signature bytes):
   GuardSound is then violated by t / t2 (negative control, deviation Dev_TxMalleableEncoding).  With FALSE
   (identity = signed payload) every invariant holds. *)
EXTENDS Integers, Sequences, FiniteSets, TLC
CONSTANTS Times,         \* grid of block timestamps: seconds, offsets from an epoch that is a multiple of 60, all >= 1800
          RootTimes,     \* timestamps of the root block (the stable block the guard starts from)
          ExpChoices,    \* set of functions  tx -> expiration time
          Menu,          \* tx sets a block may carry
          QMenu,         \* tx sets asked about
          MaxBlocks,     \* blocks of the tree, root included
          HashCoversSig,
          PruneLife,     \* DelOldBlocks keeps blocks younger than stable.time - PruneLife   (code and design: 1800)
          ReloadLife     \* initTxPool reloads stable blocks not older than stable.time - ReloadLife (code and design: 1800)
Life == 1800
Bucket == 60
Tx == {"t", "t2", "b", "u"}
Subs(x) == IF x = "b" THEN {"t"} ELSE {}
Payload(x) == IF x = "t2" THEN "t" ELSE x
Closure(x) == {x} \cup Subs(x)
Effects(x) == {Payload(y) : y \in Closure(x)}          \* the signed payloads that take effect when x is executed
Key(x) == IF HashCoversSig THEN x ELSE Payload(x)        \* what the tracer is keyed by
Keys(x) == {Key(y) : y \in Closure(x)}
Ids == 1..MaxBlocks

VARIABLES exp,      \* expirations of this behaviour (constant)
          blocks,   \* history: the tree, blocks[i] = [parent, time, txs, h]; 1 = root
          stable, dead,
          base, bkt, cache, tracer   \* the guard: TimeBase, bucket occupancy (block -> number of entries), cached blocks, tracer
vars == <<exp, blocks, stable, dead, base, bkt, cache, tracer>>

N == Len(blocks)
RECURSIVE Anc(_)
Anc(b) == IF b = 0 THEN {} ELSE {b} \cup Anc(blocks[b].parent)
Live == {b \in 1..N : b \notin dead /\ stable \in Anc(b)}
Legal(x, tm) == \A y \in Closure(x) : tm <= exp[y] /\ exp[y] <= tm + Life      \* VerifyTxBody / checkBoxTx time window
BlockKeys(b) == UNION {Keys(x) : x \in blocks[b].txs}
BIdx(tm, bs) == tm \div Bucket - bs \div Bucket

\* ---- the guard's own operations (shape of the Go code) ----
\* SaveBlock of block id n with timestamp tm and transactions txs into guard state g = [base, bkt, cache, tracer]
GSave(g, n, tm, txs) ==
  IF BIdx(tm, g.base) < 0 THEN g                                               \* ErrTimeBucketTime: nothing is recorded
  ELSE [g EXCEPT !.bkt[n] = @ + 1, !.cache = @ \cup {n},
                 !.tracer = [k \in Tx |-> IF k \in UNION {Keys(x) : x \in txs} THEN @[k] \cup {n} ELSE @[k]]]
\* TimeBuckets.Expire(newBase) + the deletions of DelOldBlocks
GExpire(g, newBase) ==
  IF BIdx(newBase, g.base) <= 0 THEN g
  ELSE LET gone == {b \in Ids : g.bkt[b] > 0 /\ blocks[b].time \div Bucket < newBase \div Bucket}
           delk == UNION {BlockKeys(b) : b \in gone \cap g.cache}              \* DelTrace drops the WHOLE trace of each tx
       IN [base |-> (newBase \div Bucket) * Bucket,
           bkt |-> [b \in Ids |-> IF b \in gone THEN 0 ELSE g.bkt[b]],
           cache |-> g.cache \ gone,
           tracer |-> [k \in Tx |-> IF k \in delk THEN {} ELSE g.tracer[k]]]
G == [base |-> base, bkt |-> bkt, cache |-> cache, tracer |-> tracer]
SetG(g) == base' = g.base /\ bkt' = g.bkt /\ cache' = g.cache /\ tracer' = g.tracer
EmptyG(t0) == [base |-> ((t0 - Life) \div Bucket) * Bucket, bkt |-> [b \in Ids |-> 0], cache |-> {}, tracer |-> [k \in Tx |-> {}]]

\* BlockCache.IsAppearedOnFork(LoadTraces(Q), P)
TraceOf(Q) == UNION {tracer[k] : k \in UNION {Keys(q) : q \in Q}}
RECURSIVE Walk(_, _)
Walk(b, minH) == IF b = 0 \/ b \notin cache \/ blocks[b].h < minH THEN {} ELSE {b} \cup Walk(blocks[b].parent, minH)
MinH(S) == CHOOSE m \in {blocks[b].h : b \in S} : \A b \in S : m <= blocks[b].h
MaxH(S) == CHOOSE m \in {blocks[b].h : b \in S} : \A b \in S : m >= blocks[b].h
GuardAnswer(P, Q) == LET tr == TraceOf(Q) IN
                     IF tr = {} THEN FALSE
                     ELSE {b \in Walk(P, MinH(tr)) : blocks[b].h <= MaxH(tr)} \cap tr # {}

\* ---- answers the property demands ----
Conflict(x, q) == Effects(x) \cap Effects(q) # {}
CouldCarry(P, q) == \E c \in {blocks[P].time} \cup Times \cup {exp[y] - Life : y \in Closure(q)} :   \* some child of P (time >= P's)
                       c >= blocks[P].time /\ Legal(q, c)                                                \* may legally carry q
CouldCarryFast(P, q) == \A y \in Closure(q) : blocks[P].time <= exp[y]           \* equivalent here (see ASSUME on ExpChoices)
OnChain(P, Q) == \E X \in Anc(P) : \E x \in blocks[X].txs : \E q \in Q : Conflict(x, q)
MustTrue(P, Q) == \E X \in Anc(P) : \E x \in blocks[X].txs : \E q \in Q : Conflict(x, q) /\ CouldCarryFast(P, q)
MustFalse(P, Q) == ~OnChain(P, Q)

\* ---- actions ----
Init == /\ exp \in ExpChoices
        /\ \E t0 \in RootTimes :
             /\ blocks = <<[parent |-> 0, time |-> t0, txs |-> {}, h |-> 0]>>
             /\ LET g == GSave(EmptyG(t0), 1, t0, {}) IN
                base = g.base /\ bkt = g.bkt /\ cache = g.cache /\ tracer = g.tracer
        /\ stable = 1 /\ dead = {}
SaveBlock(p, tm, txs) ==
  /\ N < MaxBlocks /\ p \in Live /\ tm >= blocks[p].time /\ \A x \in txs : Legal(x, tm)
  /\ blocks' = Append(blocks, [parent |-> p, time |-> tm, txs |-> txs, h |-> blocks[p].h + 1])
  /\ SetG(GSave(G, N + 1, tm, txs))
  /\ UNCHANGED <<exp, stable, dead>>
SaveAgain(b) ==                                   \* "redundancy is fine": the same block is handed to SaveBlock again
  /\ b \in Live \cap cache /\ \A c \in Ids : bkt[c] <= 1          \* bound: at most one block is held twice
  /\ SetG(GSave(G, b, blocks[b].time, blocks[b].txs))
  /\ UNCHANGED <<exp, blocks, stable, dead>>
Advance(s) ==                                     \* s becomes stable: onStableChanged -> DelOldBlocks(s.time)
  /\ s \in Live /\ s # stable
  /\ stable' = s
  /\ SetG(GExpire(G, blocks[s].time - PruneLife))
  /\ UNCHANGED <<exp, blocks, dead>>
RECURSIVE Reload(_, _, _)
Reload(g, b, t0) == IF b = 0 \/ t0 - blocks[b].time > ReloadLife THEN g
                    ELSE Reload(GSave(g, b, blocks[b].time, blocks[b].txs), blocks[b].parent, t0)
Restart ==                                        \* NewTxGuard(stable.time) + initTxPool; unstable blocks are lost
  /\ SetG(Reload(EmptyG(blocks[stable].time), stable, blocks[stable].time))
  /\ dead' = dead \cup ((1..N) \ Anc(stable))
  /\ UNCHANGED <<exp, blocks, stable>>
Next == \/ \E p \in Ids, tm \in Times, txs \in Menu : SaveBlock(p, tm, txs)
        \/ \E b \in Ids : SaveAgain(b)
        \/ \E s \in Ids : Advance(s)
        \/ Restart
Spec == Init /\ [][Next]_vars

\* ---- invariants ----
TypeOK == /\ stable \in 1..N /\ dead \subseteq 1..N /\ cache \subseteq 1..N /\ base % Bucket = 0
          /\ \A k \in Tx : tracer[k] \subseteq 1..N
AnswerOK(P, Q, r) == (MustTrue(P, Q) => r) /\ (MustFalse(P, Q) => ~r)
GuardSound == \A P \in Live : \A Q \in QMenu : AnswerOK(P, Q, GuardAnswer(P, Q))
NoDangling == /\ \A k \in Tx : tracer[k] \subseteq cache                 \* else CollectBlocks panics
              /\ cache = {b \in Ids : bkt[b] > 0}
LiveCached == Live \subseteq cache                                       \* else SliceOnFork panics
\* anything the guard no longer knows is expired for every possible child of every live block
WindowSufficient == \A P \in Live : \A X \in Anc(P) \ cache : \A x \in blocks[X].txs : \A y \in Closure(x) :
                      exp[y] < blocks[stable].time
\* whole-trace deletion only forgets transactions that can never be packaged again
TracerComplete == \A X \in cache : \A x \in blocks[X].txs : \A y \in Closure(x) :
                      exp[y] >= blocks[stable].time => X \in tracer[Key(y)]
CarryEquiv == \A P \in Live, q \in Tx : CouldCarry(P, q) <=> CouldCarryFast(P, q)
\* vacuity guards: these must be VIOLATED (reachability of the interesting cases); checked by separate cfgs in the thorough tier
NeverPruned == \A b \in 1..N : b \in cache \/ b \in dead
====
