---- MODULE TxGuard ----
(* C04 layer 1: the replay cache chain/txpool.TxGuard (tx_guard.go, block_cache.go, time_bucket.go, tx_tracer.go),
   implementation-shaped: 60-second time buckets holding block ids, a block cache, a tracer  tx key -> blocks,
   pruning by DelOldBlocks(stable.time) and the reload of chain.initTxPool after a restart.

   Universe: one signed payload in two encodings "t" / "t2" (t2 = the s -> n-s re-encoded signature: other bytes,
   other tx hash, same signer, same payload), a box "b" whose only sub-transaction is t, another box "w" (other signer,
   other signed wrapper) around the same t, an unrelated "u".
   A transaction has a SIGNED CONTENT (the ids above) and reaches the guard in a CARRIER: RLP for a transaction of its
   own, the JSON payload of the box for a sub-transaction.  A carrier holds more than the signed content (a redundant
   "hash" member, gasUsed, unknown members, member order, white space) and whoever builds the box writes those as he
   likes: Encs names carrier encodings ("c" = canonical, what the node's own marshaller writes).  A block carries a
   set of transactions, all in one carrier encoding, and every question is asked in every carrier encoding; the answers
   the property demands do not mention the carrier: the guard must be keyed by signed content.
   The tree of blocks grows by SaveBlock, the stable block advances (Advance =
   DelOldBlocks(time of the new stable block)), the node restarts (Restart = NewTxGuard + reload of the last 1800 s of
   the stable chain; unstable blocks are gone).

   Property level (what the validator needs from the guard; section "answers" below):
     ExistTxs(P, Q) must be TRUE  when a transaction that shares a payload with some q in Q was saved on the
                                  ancestor chain of P and q is not yet expired for a child of P;
     ExistTxs(P, Q) must be FALSE when nothing on the ancestor chain of P shares a payload with Q (other forks do
                                  not count: what was executed only on an abandoned fork may be executed again).
   HashCoversSig = TRUE is the code as written (identity of a transaction = hash over the signature bytes):
   GuardSound is then violated by t / t2 (negative control, deviation Dev_TxMalleableEncoding).  With FALSE
   (identity = signed payload) every invariant holds.
   CarrierKeyed = TRUE (negative control): a sub-transaction read from a non-canonical box payload is filed under what
   the payload says it is; GuardSound is then violated by b / t, b / w, b in two carrier encodings. *)
EXTENDS Integers, Sequences, FiniteSets, TLC
CONSTANTS Times,         \* grid of block timestamps: seconds, offsets from an epoch that is a multiple of 60, all >= 1800
          RootTimes,     \* timestamps of the root block (the stable block the guard starts from)
          ExpChoices,    \* set of functions  tx -> expiration time
          Menu,          \* tx sets a block may carry
          QMenu,         \* tx sets asked about
          MaxBlocks,     \* blocks of the tree, root included
          HashCoversSig,
          Encs,          \* carrier encodings
          CarrierKeyed,
          PruneLife,     \* DelOldBlocks keeps blocks younger than stable.time - PruneLife   (code and design: 1800)
          ReloadLife     \* initTxPool reloads stable blocks not older than stable.time - ReloadLife (code and design: 1800)
Life == 1800
Bucket == 60
Canon == "c"
RlpEncs == {"g"}         \* manipulations that also exist for the RLP carrier of a transaction of its own (gasUsed)
Tx == {"t", "t2", "b", "w", "u"}
Boxes == {"b", "w"}
Subs(x) == IF x \in Boxes THEN {"t"} ELSE {}
Payload(x) == IF x = "t2" THEN "t" ELSE x
Closure(x) == {x} \cup Subs(x)
Effects(x) == {Payload(y) : y \in Closure(x)}          \* the signed payloads that take effect when x is executed
Key(x) == IF HashCoversSig THEN x ELSE Payload(x)        \* what the tracer is keyed by: a function of the signed content
\* tracer keys are triples: <<content key, "", "">>, or (CarrierKeyed only) <<content key, box, carrier encoding>> for a
\* sub-transaction whose identity was taken from the payload of that box
CKey(x) == <<Key(x), "", "">>
SubKey(y, x, e) == IF CarrierKeyed /\ e # Canon THEN <<Key(y), x, e>> ELSE CKey(y)
Keys(x, e) == {CKey(x)} \cup {SubKey(y, x, e) : y \in Subs(x)}
KeySpace == {CKey(x) : x \in Tx} \cup (IF CarrierKeyed THEN {<<Key(y), x, e>> : y \in Tx, x \in Boxes, e \in Encs \ {Canon}} ELSE {})
Carried(txs, e) == e = Canon \/ txs \cap Boxes # {} \/ (txs # {} /\ e \in RlpEncs)    \* the encodings that make a difference for txs
Ids == 1..MaxBlocks

VARIABLES exp,      \* expirations of this behaviour (constant)
          encs,     \* = Encs (constant; in the state so that the adapter, which sees states, knows which carriers to build)
          blocks,   \* history: the tree, blocks[i] = [parent, time, txs, enc, h]; 1 = root
          stable, dead,
          base, bkt, cache, tracer   \* the guard: TimeBase, bucket occupancy (block -> number of entries), cached blocks, tracer
vars == <<exp, encs, blocks, stable, dead, base, bkt, cache, tracer>>

N == Len(blocks)
RECURSIVE Anc(_)
Anc(b) == IF b = 0 THEN {} ELSE {b} \cup Anc(blocks[b].parent)
Live == {b \in 1..N : b \notin dead /\ stable \in Anc(b)}
Legal(x, tm) == \A y \in Closure(x) : tm <= exp[y] /\ exp[y] <= tm + Life      \* VerifyTxBody / checkBoxTx time window
BlockKeys(b) == UNION {Keys(x, blocks[b].enc) : x \in blocks[b].txs}
BIdx(tm, bs) == tm \div Bucket - bs \div Bucket

\* ---- the guard's own operations (shape of the Go code) ----
\* SaveBlock of block id n with timestamp tm and transactions txs (carried in encoding e) into guard state g = [base, bkt, cache, tracer]
GSave(g, n, tm, txs, e) ==
  IF BIdx(tm, g.base) < 0 THEN g                                               \* ErrTimeBucketTime: nothing is recorded
  ELSE [g EXCEPT !.bkt[n] = @ + 1, !.cache = @ \cup {n},
                 !.tracer = [k \in KeySpace |-> IF k \in UNION {Keys(x, e) : x \in txs} THEN @[k] \cup {n} ELSE @[k]]]
\* TimeBuckets.Expire(newBase) + the deletions of DelOldBlocks
GExpire(g, newBase) ==
  IF BIdx(newBase, g.base) <= 0 THEN g
  ELSE LET gone == {b \in Ids : g.bkt[b] > 0 /\ blocks[b].time \div Bucket < newBase \div Bucket}
           delk == UNION {BlockKeys(b) : b \in gone \cap g.cache}              \* DelTrace drops the WHOLE trace of each tx
       IN [base |-> (newBase \div Bucket) * Bucket,
           bkt |-> [b \in Ids |-> IF b \in gone THEN 0 ELSE g.bkt[b]],
           cache |-> g.cache \ gone,
           tracer |-> [k \in KeySpace |-> IF k \in delk THEN {} ELSE g.tracer[k]]]
G == [base |-> base, bkt |-> bkt, cache |-> cache, tracer |-> tracer]
SetG(g) == base' = g.base /\ bkt' = g.bkt /\ cache' = g.cache /\ tracer' = g.tracer
EmptyG(t0) == [base |-> ((t0 - Life) \div Bucket) * Bucket, bkt |-> [b \in Ids |-> 0], cache |-> {}, tracer |-> [k \in KeySpace |-> {}]]

\* BlockCache.IsAppearedOnFork(LoadTraces(Q), P); the transactions of Q arrive in carrier encoding e
TraceOf(Q, e) == UNION {tracer[k] : k \in UNION {Keys(q, e) : q \in Q}}
RECURSIVE Walk(_, _)
Walk(b, minH) == IF b = 0 \/ b \notin cache \/ blocks[b].h < minH THEN {} ELSE {b} \cup Walk(blocks[b].parent, minH)
MinH(S) == CHOOSE m \in {blocks[b].h : b \in S} : \A b \in S : m <= blocks[b].h
MaxH(S) == CHOOSE m \in {blocks[b].h : b \in S} : \A b \in S : m >= blocks[b].h
GuardAnswer(P, Q, e) == LET tr == TraceOf(Q, e) IN
                     IF tr = {} THEN FALSE
                     ELSE {b \in Walk(P, MinH(tr)) : blocks[b].h <= MaxH(tr)} \cap tr # {}

\* ---- answers the property demands ----
Conflict(x, q) == Effects(x) \cap Effects(q) # {}
CouldCarry(P, q) == \E c \in {blocks[P].time} \cup Times \cup {exp[y] - Life : y \in Closure(q)} :   \* some child of P (time >= P's)
                       c >= blocks[P].time /\ Legal(q, c)                                                \* may legally carry q
CouldCarryFast(P, q) == \A y \in Closure(q) : blocks[P].time <= exp[y]           \* equivalent here (see ASSUME on ExpChoices)
OnChain(P, Q) == \E X \in Anc(P) : \E x \in blocks[X].txs : \E q \in Q : Conflict(x, q)
MustTrue(P, Q) == \E X \in Anc(P) : \E x \in blocks[X].txs : \E q \in Q : Conflict(x, q) /\ CouldCarryFast(P, q)
MustFalse(P, Q) == ~OnChain(P, Q)

\* ---- actions ----
Init == /\ exp \in ExpChoices /\ encs = Encs
        /\ \E t0 \in RootTimes :
             /\ blocks = <<[parent |-> 0, time |-> t0, txs |-> {}, enc |-> Canon, h |-> 0]>>
             /\ LET g == GSave(EmptyG(t0), 1, t0, {}, Canon) IN
                base = g.base /\ bkt = g.bkt /\ cache = g.cache /\ tracer = g.tracer
        /\ stable = 1 /\ dead = {}
SaveBlock(p, tm, txs, e) ==
  /\ N < MaxBlocks /\ p \in Live /\ tm >= blocks[p].time /\ Carried(txs, e) /\ \A x \in txs : Legal(x, tm)
  /\ blocks' = Append(blocks, [parent |-> p, time |-> tm, txs |-> txs, enc |-> e, h |-> blocks[p].h + 1])
  /\ SetG(GSave(G, N + 1, tm, txs, e))
  /\ UNCHANGED <<exp, encs, stable, dead>>
SaveAgain(b) ==                                   \* "redundancy is fine": the same block is handed to SaveBlock again
  /\ b \in Live \cap cache /\ \A c \in Ids : bkt[c] <= 1          \* bound: at most one block is held twice
  /\ SetG(GSave(G, b, blocks[b].time, blocks[b].txs, blocks[b].enc))
  /\ UNCHANGED <<exp, encs, blocks, stable, dead>>
Advance(s) ==                                     \* s becomes stable: onStableChanged -> DelOldBlocks(s.time)
  /\ s \in Live /\ s # stable
  /\ stable' = s
  /\ SetG(GExpire(G, blocks[s].time - PruneLife))
  /\ UNCHANGED <<exp, encs, blocks, dead>>
RECURSIVE Reload(_, _, _)
Reload(g, b, t0) == IF b = 0 \/ t0 - blocks[b].time > ReloadLife THEN g
                    ELSE Reload(GSave(g, b, blocks[b].time, blocks[b].txs, blocks[b].enc), blocks[b].parent, t0)
Restart ==                                        \* NewTxGuard(stable.time) + initTxPool; unstable blocks are lost
  /\ SetG(Reload(EmptyG(blocks[stable].time), stable, blocks[stable].time))
  /\ dead' = dead \cup ((1..N) \ Anc(stable))
  /\ UNCHANGED <<exp, encs, blocks, stable>>
Next == \/ \E p \in Ids, tm \in Times, txs \in Menu, e \in Encs : SaveBlock(p, tm, txs, e)
        \/ \E b \in Ids : SaveAgain(b)
        \/ \E s \in Ids : Advance(s)
        \/ Restart
Spec == Init /\ [][Next]_vars

\* ---- invariants ----
TypeOK == /\ stable \in 1..N /\ dead \subseteq 1..N /\ cache \subseteq 1..N /\ base % Bucket = 0
          /\ \A k \in KeySpace : tracer[k] \subseteq 1..N
AnswerOK(P, Q, r) == (MustTrue(P, Q) => r) /\ (MustFalse(P, Q) => ~r)
GuardSound == \A P \in Live : \A Q \in QMenu : \A e \in Encs : AnswerOK(P, Q, GuardAnswer(P, Q, e))    \* whatever the carrier of the question
NoDangling == /\ \A k \in KeySpace : tracer[k] \subseteq cache                 \* else CollectBlocks panics
              /\ cache = {b \in Ids : bkt[b] > 0}
LiveCached == Live \subseteq cache                                       \* else SliceOnFork panics
\* anything the guard no longer knows is expired for every possible child of every live block
WindowSufficient == \A P \in Live : \A X \in Anc(P) \ cache : \A x \in blocks[X].txs : \A y \in Closure(x) :
                      exp[y] < blocks[stable].time
\* whole-trace deletion only forgets transactions that can never be packaged again
TracerComplete == \A X \in cache : \A x \in blocks[X].txs : \A y \in Closure(x) :
                      exp[y] >= blocks[stable].time => X \in tracer[IF y = x THEN CKey(y) ELSE SubKey(y, x, blocks[X].enc)]
CarryEquiv == \A P \in Live, q \in Tx : CouldCarry(P, q) <=> CouldCarryFast(P, q)
\* vacuity guards: these must be VIOLATED (reachability of the interesting cases); checked by separate cfgs in the thorough tier
NeverPruned == \A b \in 1..N : b \in cache \/ b \in dead
====
