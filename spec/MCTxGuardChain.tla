---- MODULE MCTxGuardChain ----
EXTENDS TxGuardChain
\* offsets (seconds) from the genesis time on the 30 s slot grid of the 2-deputy world
McTimes == {30, 60, 1830, 1860, 1890}
McTimesS == {30, 1830, 1860}
E(t, u) == [x \in Tx |-> IF x = "u" THEN u ELSE t]
McExp == {E(1830, 1860)}          \* t (and the boxes) legal in blocks timed [30, 1830], u in [60, 1860]
McMenu == {<<>>, <<"t">>, <<"t2">>, <<"u">>, <<"b">>, <<"bb">>, <<"bu">>, <<"t", "t">>, <<"t", "t2">>, <<"b", "t">>, <<"t", "b">>, <<"t", "u">>}
McMenuS == {<<>>, <<"t">>, <<"t2">>, <<"b">>, <<"bb">>, <<"t", "t">>, <<"b", "t">>, <<"t", "u">>}
\* window / pruning / restart-reload boundaries through the engine: 3 offered blocks, small menu
McMenuW == {<<>>, <<"t">>, <<"b">>}
McTimesW == {30, 60, 1830, 1860}
McMenuV == {<<>>, <<"t">>}
McTimesV == {30, 1830}
\* carrier encodings: the same signed content in boxes whose JSON payloads are written differently, in another box around it,
\* twice in one box, in two boxes of one block, in a box and on its own; two blocks of one branch / two forks
McTimesC == {30}
McMenuC == {<<"t">>, <<"u">>, <<"b">>, <<"w">>, <<"bb">>, <<"bu">>, <<"b", "w">>, <<"b", "t">>}
McMenuCT == McMenuC \cup {<<"t2">>, <<"t", "w">>, <<"bu", "w">>, <<"u", "b">>}
\* a reimbursement transaction priced twice by its gas payer
McMenuR == {<<"r">>, <<"r2">>, <<"r", "r2">>, <<"t">>, <<"t", "r">>}
\* a signature appended to t by somebody else
McMenuA == {<<"t">>, <<"t3">>, <<"t", "t3">>, <<"b">>, <<"u", "t3">>}
McMenuRA == McMenuR \cup McMenuA
\* the transaction's own carrier: t / n and their variants (one own-carrier form per block), in two blocks of a branch, on two forks,
\* in one block, inside a box
McMenuO == {<<"t">>, <<"tv">>, <<"t", "tv">>, <<"bv">>, <<"n">>, <<"nv">>, <<"bv", "nv">>}
McMenuOq == {<<"t">>, <<"tv">>, <<"t", "tv">>, <<"bv">>, <<"n">>, <<"nv">>}
McMenuON == {<<"t">>, <<"tv">>}
McMenuX == McMenu \cup {<<"w">>, <<"b", "w">>, <<"t", "w">>}
====
