SPECIFICATION Spec
CONSTANTS NB = 2
 Kind <- McKind
 Subs <- McSubs
 Blk <- McBlk2
 SideH = 0
 SideTxs <- McNoSide
 Palette <- McCore
 MaxLen = 2
 RaceLen = 0
 BugBatchAny = TRUE
 BugAddAfterInsert = FALSE
 BugStaleSubIndex = FALSE
 BugBatchAbort = FALSE
INVARIANTS TxReachesPool
CHECK_DEADLOCK FALSE
