---- MODULE TraceAuth ----
(* C06 as a monitor over traces of REAL nodes (harness/adapters/auth).  Every Offer line is one real signed
   transaction (the case a[1] of Auth.tla instantiated with real keys and the real signing hashes) handed to a real
   mining node; every Validate line is the block with that transaction (the miner's own block, or the block a
   dishonest deputy would publish when the miner refused) handed to a second real node.  Logged are the REAL
   registered signers of the sender / payer account before the step (cfg, pcfg), what the node did (packaged, ok,
   stored) and what changed in the real account state (balance deltas of sender S, signed recipient To, tampered
   recipient Other, payer P, box sender W, the account P2 a tampered gasPayer names; vote / signers changed).
   The case also says who is named as gas payer (another account / the sender account itself in the reimbursed form)
   and, for a box, whether its JSON data was re-written after the box sender signed (other sub-transaction, forged
   "hash" member); Authorized covers both: the gas terms need signatures of the payer's holders made after the last
   change, the box sender must have signed exactly the sub-transaction that is carried.
   Demanded:   any effect  =>  Authorized (Auth.tla) for the signers registered before the step;
               Canonical /\ Authorized /\ well-formed  =>  packaged / accepted  (the check is not vacuous);
               the effect, when there is one, is that of the submitted content; a refusal changes nothing. *)
EXTENDS Auth, TraceBase
CONSTANT AllowedDev
VARIABLE pend          \* the Offer line awaiting its Validate
tvars == <<cfg, phase, cur, acc, pend, l>>
DevKey == "Dev_MultisigCountsRepeatedSigner"
\* the case, judged against the payer signers that are really registered
CaseOf(e) == [e.a[1] EXCEPT !.pcfg = e.pcfg]
\* the named deviation: exactly the acceptances that adding weights per signature (not per signer) explains
DevMatch(k, c) == DevKey \in AllowedDev /\ ~Authorized(k, c) /\ AcceptsD({DevKey}, k, c)
AuthOrDev(k, c) == IF Authorized(k, c) THEN TRUE ELSE DevMatch(k, c) /\ UseDev(DevKey)
Changed(e, k) == e.dS # 0 \/ e.dTo # 0 \/ e.dOther # 0 \/ e.dP # 0 \/ e.dW # 0 \/ e.dP2 # 0 \/ e.vote \/ e.cfg2 # k
\* the kind that is executed (the type field may have been changed)
ExecKind(c) == IF c.f = "type" THEN (IF c.kind = "transfer" THEN "vote" ELSE "transfer") ELSE c.kind
\* what executing the SUBMITTED content does (o: the Offer line, e: the line with the deltas, k: signers before)
EffectOf(c, o, e, k) ==
  LET moved == IF ExecKind(c) = "transfer" THEN o.amount ELSE 0 IN
  /\ e.dOther = moved /\ e.dTo = (IF o.sameTo THEN moved ELSE 0)
  /\ IF PaidBySender(c) THEN e.dS < 0 - moved /\ e.dP = 0 ELSE e.dS = 0 - moved /\ e.dP < 0   \* (P: the other account that pays, else P2)
  /\ e.dP2 = (IF PaidBySender(c) THEN e.dP ELSE 0)
  /\ (c.box = "none" => e.dW = 0)                      \* (a box is paid for by its sender, who signed it)
  /\ e.vote = (ExecKind(c) = "vote")
  /\ e.cfg2 = (IF c.kind = "signers" THEN (IF c.f = "data" THEN <<100, 100, 100>> ELSE c.ncfg) ELSE k)
TReset == /\ Ev("reset")
          /\ cfg' = E.cfg /\ phase' = 0 /\ cur' = NoCase /\ acc' = FALSE /\ pend' = <<>>
TOffer == /\ Ev("Offer") /\ phase = 0
          /\ LET c == CaseOf(E)  k == E.cfg IN
             /\ E.ntx = (IF E.packaged THEN 1 ELSE 0)
             /\ (E.packaged \/ Changed(E, k) => AuthOrDev(k, c))              \* an effect only if authorised
             /\ (Canonical(k, c) /\ Authorized(k, c) /\ E.intake => E.packaged) \* honest transactions are not refused
             /\ (E.packaged => E.intake /\ EffectOf(c, E, E, k))               \* the effect is that of the submitted content
             /\ (~E.packaged => ~Changed(E, k))                               \* a refused transaction changes nothing
             /\ phase' = 1 /\ cur' = c /\ acc' = E.packaged /\ cfg' = k /\ pend' = E
TValidate == /\ Ev("Validate") /\ phase = 1
             /\ E.mode = (IF acc THEN "honest" ELSE E.mode) /\ E.mode \in {"honest", "forged", "skip"}
             /\ (E.mode = "honest" => acc)
             /\ (E.ok \/ E.stored \/ Changed(E, cfg) => AuthOrDev(cfg, cur))
             /\ (Canonical(cfg, cur) /\ Authorized(cfg, cur) /\ pend.intake /\ E.mode # "skip" => E.ok)
             /\ (E.ok => E.stored /\ EffectOf(cur, pend, E, cfg))
             /\ (~E.ok => ~E.stored /\ ~Changed(E, cfg))
             /\ phase' = 0 /\ cur' = NoCase /\ acc' = FALSE /\ pend' = <<>> /\ UNCHANGED cfg
TraceNext == TReset \/ TOffer \/ TValidate
TraceSpec == l = 1 /\ cfg = <<>> /\ phase = 0 /\ cur = NoCase /\ acc = FALSE /\ pend = <<>> /\ [][TraceNext]_tvars
====
