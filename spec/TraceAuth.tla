---- MODULE TraceAuth ----
(* C06 as a monitor over traces of REAL nodes (harness/adapters/auth).  Every Offer / OfferStale line is one real signed
   transaction (the case a[1] of Auth.tla instantiated with real keys and the real signing hashes: every signature made
   with the key, in the scheme, on the content - before / after the change - and for the gasPayer member - absent, the
   sender, another account - the case names) handed to a real mining node; every Validate line is the block with that
   transaction (the miner's own block, or the block a dishonest deputy would publish when the miner refused) handed to a
   second real node; a Stabilise line is the head block confirmed by enough deputies on both nodes.  Logged are the REAL
   registered signers of the sender / payer account before the step (cfg, pcfg) and in the last stable block (scfg), what
   the node did (packaged, ok, stored) and what changed in the real account state (balance deltas of sender S, signed
   recipient To, tampered recipient Other, the other account P, box sender W, the second other account Q = P2; vote /
   signers changed).
   Authorized: the gas terms need signatures of the holders of the account that PAYS (the sender's own, in the default
   form, when it pays itself), made after the last change they cover; every sender signature must have been made in the
   scheme of the transaction's form and cover the gasPayer member as submitted; the box sender must have signed exactly
   the sub-transaction that is carried.  The signers that count are those registered NOW, not those of the stable block.
   A payer's statement counts only when it was made over the very list of sender signatures that is submitted (c.over: not
   over its first element, a prefix, a re-ordering, or the list of another transaction some signature of which also stands
   in this one); the carrier the node read the transaction from (c.via: RLP / JSON) is no part of the judgement.
   Demanded:   any effect  =>  Authorized (Auth.tla) for the signers registered before the step;
               Canonical /\ Authorized /\ well-formed  =>  packaged / accepted  (the check is not vacuous);
               the effect, when there is one, is that of the submitted content (paid by the account the submitted
               gasPayer member makes pay); a refusal changes nothing. *)
EXTENDS Auth, TraceBase
CONSTANT AllowedDev
VARIABLE pend          \* the Offer line awaiting its Validate
tvars == <<cfg, scfg, phase, cur, acc, pend, l>>
DevKey == "Dev_MultisigCountsRepeatedSigner"
\* the case, judged against the payer signers that are really registered
CaseOf(e) == [e.a[1] EXCEPT !.pcfg = e.pcfg]
\* the named deviation: exactly the acceptances that adding weights per signature (not per signer) explains
DevMatch(k, c) == DevKey \in AllowedDev /\ ~Authorized(k, c) /\ AcceptsD({DevKey}, k, c)
AuthOrDev(k, c) == IF Authorized(k, c) THEN TRUE ELSE DevMatch(k, c) /\ UseDev(DevKey)
Changed(e, k) == e.dS # 0 \/ e.dTo # 0 \/ e.dOther # 0 \/ e.dP # 0 \/ e.dW # 0 \/ e.dP2 # 0 \/ e.vote \/ e.cfg2 # k
\* the kind that is executed (the type field may have been changed)
ExecKind(c) == IF c.f = "type" THEN (IF c.kind = "transfer" THEN "vote" ELSE "transfer") ELSE c.kind
\* what executing the SUBMITTED content does (o: the Offer line, e: the line with the deltas, k: signers before)
EffectOf(c, o, e, k) ==
  LET moved == IF ExecKind(c) = "transfer" THEN o.amount ELSE 0
      pa == PayerAcct(c.gp) IN                              \* the account the submitted gasPayer member makes pay
  /\ e.dOther = moved /\ e.dTo = (IF o.sameTo THEN moved ELSE 0)
  /\ IF pa = "S" THEN e.dS < 0 - moved ELSE e.dS = 0 - moved
  /\ IF pa = "P" THEN e.dP < 0 ELSE e.dP = 0
  /\ IF pa = "Q" THEN e.dP2 < 0 ELSE e.dP2 = 0
  /\ (c.box = "none" => e.dW = 0)                      \* (a box is paid for by its sender, who signed it)
  /\ e.vote = (ExecKind(c) = "vote")
  /\ e.cfg2 = (IF c.kind = "signers" THEN (IF c.f = "data" THEN <<100, 100, 100>> ELSE c.ncfg) ELSE k)
TReset == /\ Ev("reset")
          /\ cfg' = E.cfg /\ scfg' = E.scfg /\ phase' = 0 /\ cur' = NoCase /\ acc' = FALSE /\ pend' = <<>>
\* name = "Offer": the account's signers are those of the last stable block | "OfferStale": they were replaced since (E.scfg: the
\* signers in the stable block, recorded; the judgement is against the signers registered now, whatever the stable block says)
THanded(name) ==
          /\ Ev(name) /\ phase = 0
          /\ LET c == CaseOf(E)  k == E.cfg IN
             /\ E.ntx = (IF E.packaged THEN 1 ELSE 0)
             /\ (E.packaged \/ Changed(E, k) => AuthOrDev(k, c))              \* an effect only if authorised
             /\ (Canonical(k, c) /\ Authorized(k, c) /\ E.intake => E.packaged) \* honest transactions are not refused
             /\ (E.packaged => E.intake /\ EffectOf(c, E, E, k))               \* the effect is that of the submitted content
             /\ (~E.packaged => ~Changed(E, k))                               \* a refused transaction changes nothing
             /\ phase' = 1 /\ cur' = c /\ acc' = E.packaged /\ cfg' = k /\ pend' = E /\ scfg' = E.scfg
TOffer == THanded("Offer")
TOfferStale == THanded("OfferStale")
TValidate == /\ Ev("Validate") /\ phase = 1
             /\ E.mode = (IF acc THEN "honest" ELSE E.mode) /\ E.mode \in {"honest", "forged", "skip"}
             /\ (E.mode = "honest" => acc)
             /\ (E.ok \/ E.stored \/ Changed(E, cfg) => AuthOrDev(cfg, cur))
             /\ (Canonical(cfg, cur) /\ Authorized(cfg, cur) /\ pend.intake /\ E.mode # "skip" => E.ok)
             /\ (E.ok => E.stored /\ EffectOf(cur, pend, E, cfg))
             /\ (~E.ok => ~E.stored /\ ~Changed(E, cfg))
             /\ phase' = 0 /\ cur' = NoCase /\ acc' = FALSE /\ pend' = <<>> /\ UNCHANGED <<cfg, scfg>>
\* the head block becomes stable on both nodes: the account's signers of the stable state are the current ones
TStabilise == /\ Ev("Stabilise") /\ phase = 0
              /\ E.scfg = E.cfg
              /\ scfg' = E.scfg /\ cfg' = E.cfg /\ UNCHANGED <<phase, cur, acc, pend>>
TraceNext == TReset \/ TOffer \/ TOfferStale \/ TValidate \/ TStabilise
TraceSpec == l = 1 /\ cfg = <<>> /\ scfg = <<>> /\ phase = 0 /\ cur = NoCase /\ acc = FALSE /\ pend = <<>> /\ [][TraceNext]_tvars
====
