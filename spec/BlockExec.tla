---- MODULE BlockExec ----
(* C01: executing a block is a pure function of (parent state, header, ordered tx list).
   The miner (TxProcessor.ApplyTxs) walks a candidate list: a candidate whose precondition fails on the
   current state is DISCARDED and must leave no trace; the others are included in order.  A validator
   (TxProcessor.Process) executes the included list only and refuses the block if one of them is invalid.
   The abstract state is a set of facts; every transaction kind has a precondition and an effect on it.
   Kinds (each is one concrete signed transaction in the harness):
     fund     founder -> r1 transfer                         always valid
     spend    r1 -> r2 transfer                              valid iff r1 is funded (so ORDER matters)
     poor     transfer from an empty account                 never valid (cannot pay gas)
     badsig   founder -> r2 transfer signed with a foreign key   never valid
     overspend r1 -> r2 transfer of more than r1 can own     never valid; when r1 is funded it fails AFTER gas was bought
     votebad  founder votes for an account that is no candidate  never valid; fails AFTER gas was bought
     vote     founder votes for deputy 0                     always valid
     votep    r1 votes for deputy 1                          valid iff r1 is funded
     create   founder creates a contract (stores a value)    always valid
     call     founder calls that contract address            always valid (a plain transfer if no code is there)
     revert   founder creates a contract whose init code REVERTs: included as a FAILED transaction (gas is charged)
     boxok    a box of two small transfers by the founder      always valid
     boxfull  a box whose SECOND sub-transaction asks for more gas than a block holds: the miner drops the box after
              the box's own gas was bought and the first sub-transaction ran (neither packaged nor reported invalid)
     boxbad   a box whose SECOND sub-transaction is unpayable: the box is invalid after the first sub-transaction ran
              (the first sub-transaction of boxfull and boxbad pays an account y that nothing else pays)
     cfwd     founder creates a contract whose init code CALLs y with 1 wei: the gas of that CALL depends on whether y is
              still an empty account, so anything a dropped box left behind about y shows in the block's gasUsed
     modsig   r1 hands its account to another signer (ModifySigners): valid iff r1 is funded and still its own signer;
              afterwards spend / votep / overspend, signed by r1, are no longer authorised
     big      a cheap transfer whose gas LIMIT is the whole block gas limit but for 20000: it fits only while nothing was
              packaged before it in the block (the miner skips it otherwise: "block is full")
     boxmany  a box of 12 transfers to 12 otherwise untouched accounts (many change logs on many accounts in one block)
   Before every block the miner under test (node A only) tries ALL transactions it has not been offered yet on a throwaway
   block, so verdicts cached and state touched by an abandoned attempt precede every real execution.
   End of block: the vote-by-balance pass visits the changed accounts in hash-map order; Fold explores every order. *)
EXTENDS Naturals, Sequences, FiniteSets, TLC
CONSTANTS MaxCands, MaxBlocks
Kind == {"fund", "spend", "poor", "badsig", "overspend", "votebad", "vote", "votep", "create", "call", "revert",
         "boxok", "boxfull", "boxbad", "cfwd", "modsig", "big", "boxmany"}
VARIABLES state,     \* set of facts
          used,      \* kinds already offered (a signed transaction is offered to the chain once)
          blocks     \* number of blocks mined
vars == <<state, used, blocks>>
\* incl = what was packaged before k in the same block
Pre(k, s, incl) == CASE k \in {"spend", "votep", "modsig"} -> "funded" \in s /\ "resigned" \notin s
               [] k = "big" -> incl = <<>>
               [] k \in {"poor", "badsig", "overspend", "votebad", "boxfull", "boxbad"} -> FALSE
               [] OTHER -> TRUE
Eff(k, s) == CASE k = "fund" -> s \cup {"funded"}
               [] k = "spend" -> s \cup {"r2paid"}
               [] k = "vote" -> s \cup {"voted0"}
               [] k = "votep" -> s \cup {"voted1"}
               [] k = "create" -> s \cup {"code"}
               [] k = "call" -> s \cup (IF "code" \in s THEN {"called"} ELSE {"sent"})
               [] k = "revert" -> s \cup {"failedtx"}
               [] k = "boxok" -> s \cup {"boxed"}
               [] k = "cfwd" -> s \cup {"ypaid"}
               [] k = "modsig" -> s \cup {"resigned"}
               [] k = "big" -> s \cup {"bigpaid"}
               [] k = "boxmany" -> s \cup {"manypaid"}
               [] OTHER -> s
RECURSIVE Miner(_, _, _)
\* <<included, state>> after walking the candidates
Miner(cands, incl, s) == IF cands = <<>> THEN <<incl, s>>
                         ELSE IF Pre(Head(cands), s, incl) THEN Miner(Tail(cands), Append(incl, Head(cands)), Eff(Head(cands), s))
                         ELSE Miner(Tail(cands), incl, s)             \* discarded: state untouched
RECURSIVE ValidatorFrom(_, _, _)
\* state after executing the list, or "reject" (done = what was executed before in this block)
ValidatorFrom(txs, done, s) == IF txs = <<>> THEN s
                     ELSE IF ~Pre(Head(txs), s, done) THEN {"reject"}
                     ELSE ValidatorFrom(Tail(txs), Append(done, Head(txs)), Eff(Head(txs), s))
Validator(txs, s) == ValidatorFrom(txs, <<>>, s)
Cands == UNION {[1..n -> Kind] : n \in 0..MaxCands}
NoRepeat(c) == \A i, j \in 1..Len(c) : i # j => c[i] # c[j]
Init == state = {} /\ used = {} /\ blocks = 0
Mine(c) == /\ blocks < MaxBlocks /\ NoRepeat(c) /\ {c[i] : i \in 1..Len(c)} \cap used = {}
           /\ state' = Miner(c, <<>>, state)[2]
           /\ used' = used \cup {c[i] : i \in 1..Len(c)}
           /\ blocks' = blocks + 1
Next == \E c \in Cands : Mine(c)
Spec == Init /\ [][Next]_vars
\* ---- C01 on the design ----
\* whatever the miner was offered, a validator executing the included list accepts it and reaches the same state,
\* and a miner offered only the included list produces the same block
Deterministic == \A c \in {x \in Cands : NoRepeat(x) /\ {x[i] : i \in 1..Len(x)} \cap used = {}} :
                    LET m == Miner(c, <<>>, state) IN
                    /\ Validator(m[1], state) = m[2]
                    /\ Miner(m[1], <<>>, state) = m
====
