---- MODULE TraceTrieKV ----
(* C17, code side.  Every line is one call of the REAL trie API (store/trie over store.TrieDatabase over
   BeansDB) plus what the real code exposes afterwards: root hash, TryGet of every key, node paths.
   A line is consumed only if
     * the call did not fail and every read equals the abstract content (reads return the last write;
       Hash / Get / Commit / Reopen / ProveAll do not change it; a reopened root has the committed content),
     * the real root is THE root of that content: TLC registers 3 / 4 remember, over all behaviours of the
       whole run (all insertion / deletion orders, commits, cache limits, reopen modes that reach the same
       content), which root every content had and which content every root had - a content with two
       roots or a root with two contents is rejected ("root is a function of the content, and binds it"),
     * the enumerated node paths are those of the canonical trie of the content (TrieKVOps.Canon),
     * a proof built from the nodes the real VerifyProof walks yields the stored value, and no
       manipulated node set makes VerifyProof answer anything but the stored value. *)
EXTENDS TrieKVOps, TraceBase
VARIABLES kind, keys, kv, avail, disk
tvars == <<kind, keys, kv, avail, disk, l>>
\* nibble paths of the keys, per kind of trie, as logged by the reset events (register 5; constant over the run)
path == TLCGet(5)[kind]

\* a node path projected to one number: its length and its first 5 nibbles (the harness logs the same projection)
Code(p) == LET d(i) == IF i <= Len(p) THEN p[i] + 1 ELSE 0 IN
           Len(p) * 2000000 + (((d(1) * 17 + d(2)) * 17 + d(3)) * 17 + d(4)) * 17 + d(5)
ShapeOf(pa, c) == IF Pairs(pa, c) = {} THEN {0}        \* the iterator reports the (empty) root position
                  ELSE {Code(p) : p \in NodePaths(Canon(Pairs(pa, c)), <<>>)}

\* what is stored, as an identity for the root history: the set of <<key, value>> pairs; keys of the plain and
\* of the secure trie are different byte strings, the empty content is the same for both
Id(kd, c) == LET st == {<<k, c[k]>> : k \in {x \in DOMAIN c : c[x] # NONE}} IN <<IF st = {} THEN "" ELSE kd, st>>
\* The root history lives in TLC registers 3 (content -> root) and 4 (root -> content), not in the state:
\* it spans all behaviours of the run and would otherwise be copied and fingerprinted with every state.
ASSUME TLCSet(3, <<>>) /\ TLCSet(4, <<>>) /\ TLCSet(5, <<>>)
\* one root per content, one content per root - over everything seen so far in this run
RootRule(kd, c, root) ==
  LET id == Id(kd, c)  ro == TLCGet(3)  co == TLCGet(4) IN
  /\ (id \in DOMAIN ro => ro[id] = root)              \* the same content never has two roots
  /\ (root \in DOMAIN co => co[root] = id)            \* the same root never has two contents
  /\ IF id \in DOMAIN ro THEN TRUE ELSE TLCSet(3, (id :> root) @@ ro)
  /\ IF root \in DOMAIN co THEN TRUE ELSE TLCSet(4, (root :> id) @@ co)
\* what every event must show when the content is c (kd, ks, pa: kind, key order and key paths of this behaviour)
Obs(kd, ks, pa, c) ==
  /\ E.err = ""
  /\ Len(E.reads) = Len(ks) /\ \A i \in 1..Len(ks) : E.reads[i] = c[ks[i]]      \* TryGet of every key
  /\ "itererr" \notin DOMAIN E
  /\ ToSet(E.shape) = ShapeOf(pa, c)
  /\ RootRule(kd, c, E.root)

TReset == /\ Ev("reset")
          /\ kind' = E.kind /\ keys' = E.keys
          /\ LET reg == TLCGet(5) IN
             IF E.kind \in DOMAIN reg
             THEN /\ \A k \in DOMAIN E.paths \cap DOMAIN reg[E.kind] : reg[E.kind][k] = E.paths[k]
                  /\ TLCSet(5, [reg EXCEPT ![E.kind] = E.paths @@ reg[E.kind]])
             ELSE TLCSet(5, (E.kind :> E.paths) @@ reg)
          /\ kv' = [k \in ToSet(E.keys) |-> NONE] /\ avail' = {} /\ disk' = {}
          /\ Obs(E.kind, E.keys, E.paths, [k \in ToSet(E.keys) |-> NONE])
Same == UNCHANGED <<kind, keys, avail, disk>>
TPut == /\ Ev("Put") /\ kv' = PutKV(kv, E.a[1], E.a[2]) /\ Obs(kind, keys, path, PutKV(kv, E.a[1], E.a[2])) /\ Same
TRemove == /\ Ev("Remove") /\ kv' = DelKV(kv, E.a[1]) /\ Obs(kind, keys, path, DelKV(kv, E.a[1])) /\ Same
TGet == /\ Ev("Get") /\ E.val = kv[E.a[1]] /\ Obs(kind, keys, path, kv) /\ UNCHANGED kv /\ Same
THash == /\ Ev("Hash") /\ E.ret = E.root /\ Obs(kind, keys, path, kv) /\ UNCHANGED kv /\ Same
TCommit == /\ Ev("Commit") /\ E.ret = E.root /\ Obs(kind, keys, path, kv)
           /\ avail' = avail \cup {kv} /\ disk' = IF E.a[1] THEN disk \cup {kv} ELSE disk
           /\ UNCHANGED <<kind, keys, kv>>
TReopen == /\ Ev("Reopen")
           /\ LET mode == E.a[2]  c == E.c IN
              /\ IF mode = "same" THEN c \in avail ELSE c \in disk
              /\ kv' = c /\ Obs(kind, keys, path, c)
              /\ E.from = E.root                                   \* opened by the root Commit returned for c
              /\ avail' = IF mode = "same" THEN avail ELSE disk   \* a new TrieDatabase has an empty node cache
           /\ UNCHANGED <<kind, keys, disk>>
ProofOK(p) ==
  /\ IF Expected(kv, p.k) # NONE THEN ~p.refused /\ p.val = kv[p.k]      \* present keys verify
     ELSE ProofAnswerOK(kv, p.k, p.refused, p.val)                       \* absent keys: absent or refused
  /\ \A j \in 1..Len(p.t) : ProofAnswerOK(kv, p.k, p.t[j].refused, p.t[j].val)   \* no node set forges another answer
TProve == /\ Ev("ProveAll") /\ kv \in avail
          /\ DOMAIN kv \subseteq {E.proofs[i].k : i \in 1..Len(E.proofs)}
          \* "= TRUE": evaluated as one boolean (TLC would otherwise branch on every disjunction inside)
          /\ (\A i \in 1..Len(E.proofs) : ProofOK(E.proofs[i])) = TRUE
          /\ Obs(kind, keys, path, kv) /\ UNCHANGED kv /\ Same
\* A run too large for one TLC process is validated in chunks; every chunk's accepted <<kind, reads, root>>
\* observations are restated as "rootobs" lines and validated together, so that the root rule spans all chunks.
TRootObs == /\ Ev("rootobs")
            /\ RootRule(E.kind, [k \in ToSet(E.keys) |-> E.reads[CHOOSE i \in 1..Len(E.keys) : E.keys[i] = k]], E.root)
            /\ UNCHANGED <<kind, keys, kv, avail, disk>>
TraceNext == TRootObs \/ TReset \/ TPut \/ TRemove \/ TGet \/ THash \/ TCommit \/ TReopen \/ TProve
TraceSpec == /\ l = 1 /\ kind = "" /\ keys = <<>> /\ kv = <<>> /\ avail = {} /\ disk = {}
             /\ [][TraceNext]_tvars
====
