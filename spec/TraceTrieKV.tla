---- MODULE TraceTrieKV ----
(* C17, code side.  Every line is one call of the REAL trie API (store/trie over store.TrieDatabase over
   BeansDB) on one of the live trie handles, plus what the real code exposes afterwards for EVERY live handle
   ("obs") and for a snapshot of the handle operated on - a copy of the Go object taken just before the call -
   ("pre"): root hash, TryGet of every key, node paths.  kv maps the live handles to their abstract contents;
   an operation changes the content of the handle it names and of no other.
   A line is consumed only if
     * the call did not fail and every read of every live handle equals that handle's own abstract content (reads
       return the last write THROUGH THAT HANDLE; Hash / Get / Commit / Reopen / ProveAll / Copy / Open do not change
       any; a reopened root has the committed content; what is done through one handle never shows in another),
     * the snapshot taken before the call still shows the content the handle had before the call, with its root
       and node paths (an operation never edits nodes an older version of the trie still consists of),
     * the real root is THE root of that content: TLC registers 3 / 4 remember, over all behaviours of the
       whole run (all insertion / deletion orders, commits, cache limits, reopen modes that reach the same
       content), which root every content had and which content every root had - a content with two
       roots or a root with two contents is rejected ("root is a function of the content, and binds it"),
     * the enumerated node paths are those of the canonical trie of the content (TrieKVOps.Canon),
     * a proof built from the nodes the real VerifyProof walks yields the stored value, and no
       manipulated node set makes VerifyProof answer anything but the stored value. *)
EXTENDS TrieKVOps, TraceBase
VARIABLES kind, keys, kv, avail, disk
tvars == <<kind, keys, kv, avail, disk, l>>
\* nibble paths of the keys, per kind of trie, as logged by the reset events (register 5; constant over the run)
path == TLCGet(5)[kind]

\* a node path projected to one number: its length and its first 5 nibbles (the harness logs the same projection)
Code(p) == LET d(i) == IF i <= Len(p) THEN p[i] + 1 ELSE 0 IN
           Len(p) * 2000000 + (((d(1) * 17 + d(2)) * 17 + d(3)) * 17 + d(4)) * 17 + d(5)
ShapeOf(pa, c) == IF Pairs(pa, c) = {} THEN {0}        \* the iterator reports the (empty) root position
                  ELSE {Code(p) : p \in NodePaths(Canon(Pairs(pa, c)), <<>>)}

\* what is stored, as an identity for the root history: the set of <<key, value>> pairs; keys of the plain and
\* of the secure trie are different byte strings, the empty content is the same for both
Id(kd, c) == LET st == {<<k, c[k]>> : k \in {x \in DOMAIN c : c[x] # NONE}} IN <<IF st = {} THEN "" ELSE kd, st>>
\* The root history lives in TLC registers 3 (content -> root) and 4 (root -> content), not in the state:
\* it spans all behaviours of the run and would otherwise be copied and fingerprinted with every state.
ASSUME TLCSet(3, <<>>) /\ TLCSet(4, <<>>) /\ TLCSet(5, <<>>)
\* one root per content, one content per root - over everything seen so far in this run
RootRule(kd, c, root) ==
  LET id == Id(kd, c)  ro == TLCGet(3)  co == TLCGet(4) IN
  /\ (id \in DOMAIN ro => ro[id] = root)              \* the same content never has two roots
  /\ (root \in DOMAIN co => co[root] = id)            \* the same root never has two contents
  /\ IF id \in DOMAIN ro THEN TRUE ELSE TLCSet(3, (id :> root) @@ ro)
  /\ IF root \in DOMAIN co THEN TRUE ELSE TLCSet(4, (root :> id) @@ co)
\* what one observed trie object (o: root, reads, node paths) must show when its content is c
\* (kd, ks, pa: kind, key order and key paths of this behaviour)
ObsOne(kd, ks, pa, c, o) ==
  /\ Len(o.reads) = Len(ks) /\ \A i \in 1..Len(ks) : o.reads[i] = c[ks[i]]      \* TryGet of every key
  /\ "itererr" \notin DOMAIN o
  /\ ToSet(o.shape) = ShapeOf(pa, c)
  /\ RootRule(kd, c, o.root)
\* what every event must show when the contents of the live handles are m (a function handle -> content):
\* EVERY live handle - the one operated on and all the others - shows its own content
\* "= TRUE": evaluated as one boolean (TLC would otherwise branch on every disjunction inside)
Obs(kd, ks, pa, m) ==
  /\ E.err = ""
  /\ Len(E.obs) = Cardinality(DOMAIN m) /\ {E.obs[i].h : i \in 1..Len(E.obs)} = DOMAIN m
  /\ (\A i \in 1..Len(E.obs) : ObsOne(kd, ks, pa, m[E.obs[i].h], E.obs[i])) = TRUE
\* the snapshot (a copy of handle h taken just before the call, observed after it) still shows the content h had
Pre(h) == /\ "pre" \in DOMAIN E /\ E.pre.h = h /\ h \in DOMAIN kv
          /\ ObsOne(kind, keys, path, kv[h], E.pre) = TRUE
RootOf(h) == E.obs[CHOOSE i \in 1..Len(E.obs) : E.obs[i].h = h].root
Drop1(m, h) == [g \in DOMAIN m \ {h} |-> m[g]]

TReset == /\ Ev("reset")
          /\ kind' = E.kind /\ keys' = E.keys
          /\ LET reg == TLCGet(5) IN
             IF E.kind \in DOMAIN reg
             THEN /\ \A k \in DOMAIN E.paths \cap DOMAIN reg[E.kind] : reg[E.kind][k] = E.paths[k]
                  /\ TLCSet(5, [reg EXCEPT ![E.kind] = E.paths @@ reg[E.kind]])
             ELSE TLCSet(5, (E.kind :> E.paths) @@ reg)
          /\ kv' = [h \in {E.obs[i].h : i \in 1..Len(E.obs)} |-> [k \in ToSet(E.keys) |-> NONE]]
          /\ avail' = {} /\ disk' = {}
          /\ Obs(E.kind, E.keys, E.paths, kv')
Same == UNCHANGED <<kind, keys, avail, disk>>
\* a[1] is the handle; the other live handles keep their contents
TPut == /\ Ev("Put") /\ Pre(E.a[1])
        /\ kv' = [kv EXCEPT ![E.a[1]] = PutKV(kv[E.a[1]], E.a[2], E.a[3])] /\ Obs(kind, keys, path, kv') /\ Same
TRemove == /\ Ev("Remove") /\ Pre(E.a[1])
           /\ kv' = [kv EXCEPT ![E.a[1]] = DelKV(kv[E.a[1]], E.a[2])] /\ Obs(kind, keys, path, kv') /\ Same
TGet == /\ Ev("Get") /\ Pre(E.a[1]) /\ E.val = kv[E.a[1]][E.a[2]] /\ Obs(kind, keys, path, kv) /\ UNCHANGED kv /\ Same
THash == /\ Ev("Hash") /\ Pre(E.a[1]) /\ E.ret = RootOf(E.a[1]) /\ Obs(kind, keys, path, kv) /\ UNCHANGED kv /\ Same
TCommit == /\ Ev("Commit") /\ Pre(E.a[1]) /\ E.ret = RootOf(E.a[1]) /\ Obs(kind, keys, path, kv)
           /\ avail' = avail \cup {kv[E.a[1]]} /\ disk' = IF E.a[2] THEN disk \cup {kv[E.a[1]]} ELSE disk
           /\ UNCHANGED <<kind, keys, kv>>
TReopen == /\ Ev("Reopen")
           /\ LET h == E.a[1]  mode == E.a[3]  c == E.c IN
              /\ h \in DOMAIN kv
              /\ IF mode = "same" THEN c \in avail /\ Pre(h) ELSE c \in disk
              \* a new TrieDatabase is the end of all other handles
              /\ kv' = IF mode = "same" THEN [kv EXCEPT ![h] = c] ELSE (h :> c)
              /\ Obs(kind, keys, path, kv')
              /\ E.from = RootOf(h)                                \* opened by the root Commit returned for c
              /\ avail' = IF mode = "same" THEN avail ELSE disk   \* a new TrieDatabase has an empty node cache
           /\ UNCHANGED <<kind, keys, disk>>
ProofOK(c, p) ==
  /\ IF Expected(c, p.k) # NONE THEN ~p.refused /\ p.val = c[p.k]        \* present keys verify
     ELSE ProofAnswerOK(c, p.k, p.refused, p.val)                        \* absent keys: absent or refused
  /\ \A j \in 1..Len(p.t) : ProofAnswerOK(c, p.k, p.t[j].refused, p.t[j].val)    \* no node set forges another answer
TProve == /\ Ev("ProveAll") /\ Pre(E.a[1]) /\ kv[E.a[1]] \in avail
          /\ DOMAIN kv[E.a[1]] \subseteq {E.proofs[i].k : i \in 1..Len(E.proofs)}
          /\ (\A i \in 1..Len(E.proofs) : ProofOK(kv[E.a[1]], E.proofs[i])) = TRUE
          /\ Obs(kind, keys, path, kv) /\ UNCHANGED kv /\ Same
\* ---- more handles: a copy, a second trie from the same or an older committed root, dropping one
TCopy == /\ Ev("Copy") /\ Pre(E.a[1]) /\ E.a[2] \notin DOMAIN kv
         /\ kv' = (E.a[2] :> kv[E.a[1]]) @@ kv /\ Obs(kind, keys, path, kv') /\ Same
TOpen == /\ Ev("Open") /\ Pre(E.a[2]) /\ E.a[1] \notin DOMAIN kv
         /\ kv[E.a[2]] \in avail /\ E.c = kv[E.a[2]]
         /\ kv' = (E.a[1] :> E.c) @@ kv /\ Obs(kind, keys, path, kv') /\ E.from = RootOf(E.a[1]) /\ Same
TOpenOld == /\ Ev("OpenOld") /\ E.a[1] \notin DOMAIN kv /\ E.c \in avail
            /\ kv' = (E.a[1] :> E.c) @@ kv /\ Obs(kind, keys, path, kv') /\ E.from = RootOf(E.a[1]) /\ Same
TClose == /\ Ev("Close") /\ E.a[1] \in DOMAIN kv
          /\ kv' = Drop1(kv, E.a[1]) /\ Obs(kind, keys, path, kv') /\ Same
\* A run too large for one TLC process is validated in chunks; every chunk's accepted <<kind, reads, root>>
\* observations are restated as "rootobs" lines and validated together, so that the root rule spans all chunks.
TRootObs == /\ Ev("rootobs")
            /\ RootRule(E.kind, [k \in ToSet(E.keys) |-> E.reads[CHOOSE i \in 1..Len(E.keys) : E.keys[i] = k]], E.root)
            /\ UNCHANGED <<kind, keys, kv, avail, disk>>
TraceNext == TRootObs \/ TReset \/ TPut \/ TRemove \/ TGet \/ THash \/ TCommit \/ TReopen \/ TProve
             \/ TCopy \/ TOpen \/ TOpenOld \/ TClose
TraceSpec == /\ l = 1 /\ kind = "" /\ keys = <<>> /\ kv = <<>> /\ avail = {} /\ disk = {}
             /\ [][TraceNext]_tvars
====
