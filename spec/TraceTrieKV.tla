---- MODULE TraceTrieKV ----
(* C17, code side.  Every line is one call of the REAL trie API (store/trie over store.TrieDatabase over
   BeansDB) plus what the real code exposes afterwards: root hash, TryGet of every key, node paths.
   A line is consumed only if
     * the call did not fail and every read equals the abstract content (reads return the last write;
       Hash / Get / Commit / Reopen / ProveAll do not change it; a reopened root has the committed content),
     * the real root is THE root of that content: rootOf / contOf remember, over all behaviours of the
       whole run (all insertion / deletion orders, commits, cache limits, reopen modes that reach the same
       content), which root every content had and which content every root had - a content with two
       roots or a root with two contents is rejected ("root is a function of the content, and binds it"),
     * the enumerated node paths are those of the canonical trie of the content (TrieKVOps.Canon),
     * a proof built from the nodes the real VerifyProof walks yields the stored value, and no
       manipulated node set makes VerifyProof answer anything but the stored value. *)
EXTENDS TrieKVOps, TraceBase
VARIABLES kind, path, kv, avail, disk, rootOf, contOf
tvars == <<kind, path, kv, avail, disk, rootOf, contOf, l>>

Min(a, b) == IF a < b THEN a ELSE b
Proj(p) == <<Len(p), Take(p, Min(8, Len(p)))>>
ShapeOf(pa, c) == IF Pairs(pa, c) = {} THEN {<<0, <<>>>>}        \* the iterator reports the (empty) root position
                  ELSE {Proj(p) : p \in NodePaths(Canon(Pairs(pa, c)), <<>>)}

\* what every event must show when the content is c (kd, pa: kind and key paths of this behaviour)
Obs(kd, pa, c) ==
  LET id == <<kd, c>> IN
  /\ E.err = ""
  /\ E.reads = c
  /\ "itererr" \notin DOMAIN E
  /\ ToSet(E.shape) = ShapeOf(pa, c)
  /\ (id \in DOMAIN rootOf => rootOf[id] = E.root)
  /\ (E.root \in DOMAIN contOf => contOf[E.root] = id)
  /\ rootOf' = IF id \in DOMAIN rootOf THEN rootOf ELSE (id :> E.root) @@ rootOf
  /\ contOf' = IF E.root \in DOMAIN contOf THEN contOf ELSE (E.root :> id) @@ contOf

TReset == /\ Ev("reset")
          /\ kind' = E.kind /\ path' = E.paths
          /\ kv' = [k \in ToSet(E.keys) |-> NONE] /\ avail' = {} /\ disk' = {}
          /\ Obs(E.kind, E.paths, [k \in ToSet(E.keys) |-> NONE])
Same == UNCHANGED <<kind, path, avail, disk>>
TPut == /\ Ev("Put") /\ kv' = PutKV(kv, E.a[1], E.a[2]) /\ Obs(kind, path, PutKV(kv, E.a[1], E.a[2])) /\ Same
TRemove == /\ Ev("Remove") /\ kv' = DelKV(kv, E.a[1]) /\ Obs(kind, path, DelKV(kv, E.a[1])) /\ Same
TGet == /\ Ev("Get") /\ E.val = kv[E.a[1]] /\ Obs(kind, path, kv) /\ UNCHANGED kv /\ Same
THash == /\ Ev("Hash") /\ E.ret = E.root /\ Obs(kind, path, kv) /\ UNCHANGED kv /\ Same
TCommit == /\ Ev("Commit") /\ E.ret = E.root /\ Obs(kind, path, kv)
           /\ avail' = avail \cup {kv} /\ disk' = IF E.a[1] THEN disk \cup {kv} ELSE disk
           /\ UNCHANGED <<kind, path, kv>>
TReopen == /\ Ev("Reopen")
           /\ LET mode == E.a[2]  c == E.c IN
              /\ IF mode = "same" THEN c \in avail ELSE c \in disk
              /\ kv' = c /\ Obs(kind, path, c)
              /\ E.from = E.root                                   \* opened by the root Commit returned for c
              /\ avail' = IF mode = "same" THEN avail ELSE disk   \* a new TrieDatabase has an empty node cache
           /\ UNCHANGED <<kind, path, disk>>
ProofOK(p) ==
  /\ IF Expected(kv, p.k) # NONE THEN ~p.refused /\ p.val = kv[p.k]      \* present keys verify
     ELSE ProofAnswerOK(kv, p.k, p.refused, p.val)                       \* absent keys: absent or refused
  /\ \A j \in 1..Len(p.t) : ProofAnswerOK(kv, p.k, p.t[j].refused, p.t[j].val)   \* no node set forges another answer
TProve == /\ Ev("ProveAll") /\ kv \in avail
          /\ DOMAIN kv \subseteq {E.proofs[i].k : i \in 1..Len(E.proofs)}
          /\ \A i \in 1..Len(E.proofs) : ProofOK(E.proofs[i])
          /\ Obs(kind, path, kv) /\ UNCHANGED kv /\ Same
TraceNext == TReset \/ TPut \/ TRemove \/ TGet \/ THash \/ TCommit \/ TReopen \/ TProve
TraceSpec == /\ l = 1 /\ kind = "" /\ path = <<>> /\ kv = <<>> /\ avail = {} /\ disk = {}
             /\ rootOf = <<>> /\ contOf = <<>>
             /\ [][TraceNext]_tvars
====
