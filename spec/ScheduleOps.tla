---- MODULE ScheduleOps ----
(* Transcription of the three independently written pieces of the mining schedule and the
   declarative rotation they must implement (C13):
     deputynode.Manager.GetMinerDistance / GetDeputyByDistance      (chain/deputynode/manager.go)
     consensus.GetCorrectMiner / GetNextMineWindow                  (chain/consensus/schedule.go)
     miner.getSleepTime's distance==1 fast path                     (chain/miner/miner.go)
     BlockAssembler.PrepareHeader's whole-second stamp              (chain/consensus/assembler.go)
   Times are ticks relative to the parent block's time; slot = slot length in ticks.
   Ranks are 0..n-1; pr = n stands for "the parent's miner is not a deputy of this term".
   special = the target height is 1 or the first block of a term (reward block). *)
EXTENDS Integers

Distance(n, special, pr, tr) ==                 \* GetMinerDistance
  IF special THEN tr + 1
  ELSE IF tr = pr THEN n
  ELSE (n + tr - pr) % n

ByDistance(n, special, pr, d) ==                \* GetDeputyByDistance -> rank
  IF special THEN (d - 1 + n) % n
  ELSE (pr + d + n) % n

CorrectMiner(n, special, pr, slot, t) ==        \* GetCorrectMiner(passTime = t >= 0) -> rank
  ByDistance(n, special, pr, ((t % (n * slot)) \div slot) + 1)

WindowFrom(n, d, slot, now) ==                  \* GetNextMineWindow
  LET loop == n * slot
      pass == IF now < 0 THEN 0 ELSE now
      f == (pass \div loop) * loop + (d - 1) * slot
  IN IF f + slot <= now THEN f + loop ELSE f

\* miner.getSleepTime: absolute wake-up instant (windowFrom, or parent+blockInterval on the fast path), never before now
WakeUp(n, d, slot, bi, now) ==
  LET wf == IF d = 1 /\ now < slot THEN bi ELSE WindowFrom(n, d, slot, now)
  IN IF wf < now THEN now ELSE wf

Stamp(t, tps) == (t \div tps) * tps             \* PrepareHeader: whole seconds (t >= 0: never before the parent)

\* ---- which term's deputies all of the above work with ----
\* The snapshot block at height k*TD names term k; it takes charge ID blocks later: heights k*TD+ID+1 .. (k+1)*TD+ID.
\* During the interim heights k*TD+1 .. k*TD+ID the next term is known already but the old one still signs.
TermInCharge(h, TD, ID) == IF h <= TD + ID THEN 0 ELSE (h - ID - 1) \div TD
FirstOfTerm(h, TD, ID) == h = 1 \/ (h > TD + ID /\ (h - ID - 1) % TD = 0)

\* ---- the declarative schedule of the property ----
Start(n, special, pr) == IF special THEN 0 ELSE (pr + 1) % n
Entitled(n, special, pr, slot, t) == (Start(n, special, pr) + (t \div slot)) % n
====
