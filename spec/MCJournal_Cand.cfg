SPECIFICATION Spec
CONSTANTS Acct <- AcctU
 KindsOf <- KindsCand
 BaseSet <- BaseCand
 MaxSteps = 6
 MaxSnap = 2
 MaxRevs = 99
 MaxOuter = 99
 MaxInner = 99
 WithSeal = TRUE
 FreeVals = FALSE
 Dv <- NoDev
INVARIANTS UndoMatchesSaved NoPanic RevsOK DiscardAllIsBase RedoEqualsExec NoTraceOfReverted SaveSucceeds
CHECK_DEADLOCK FALSE
