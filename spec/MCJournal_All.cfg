SPECIFICATION Spec
CONSTANTS Acct <- AcctCU
 KindsOf <- KindsAll
 BaseSet <- BaseAll
 MaxSteps = 24
 MaxSnap = 3
 FreeVals = TRUE
 Dv <- NoDev
INVARIANTS UndoMatchesSaved NoPanic RevsOK DiscardAllIsBase
CHECK_DEADLOCK FALSE
