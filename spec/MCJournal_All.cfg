SPECIFICATION Spec
CONSTANTS Acct <- AcctCU
 KindsOf <- KindsAll
 BaseSet <- BaseAll
 MaxSteps = 26
 MaxSnap = 3
 WithSeal = TRUE
 FreeVals = TRUE
 Dv <- NoDev
INVARIANTS UndoMatchesSaved NoPanic RevsOK DiscardAllIsBase RedoEqualsExec NoTraceOfReverted
CHECK_DEADLOCK FALSE
