SPECIFICATION Spec
CONSTANTS Acct <- AcctCU
 KindsOf <- KindsAll
 BaseSet <- BaseAll
 MaxSteps = 26
 MaxSnap = 3
 MaxRevs = 99
 MaxOuter = 99
 MaxInner = 99
 WithSeal = TRUE
 FreeVals = TRUE
 Dv <- NoDev
INVARIANTS UndoMatchesSaved NoPanic RevsOK DiscardAllIsBase RedoEqualsExec NoTraceOfReverted SaveSucceeds
CHECK_DEADLOCK FALSE
