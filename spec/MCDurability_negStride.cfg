SPECIFICATION Spec
CONSTANTS NB = 1
 MaxCrash = 2
 RepairTornTail = TRUE
 RepairAtomicContext = TRUE
 RepairScanPromotes = TRUE
 MaxEdge = 1
 ScanStride = "nextblock"
 CaskAdvance = "align"
INVARIANTS DurablyClosed
CHECK_DEADLOCK FALSE
