SPECIFICATION Spec
CONSTANTS NB = 4
 ND = 3
 Self = 0
 Packets <- McPacketsOne
 MinerPool <- McPoolTwo
INVARIANTS QuorumOK HeadOK TreeOK StableChainKept
PROPERTY StableForward
CHECK_DEADLOCK FALSE
