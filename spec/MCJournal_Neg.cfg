SPECIFICATION Spec
CONSTANTS Acct <- AcctC
 KindsOf <- KindsNeg
 BaseSet <- BaseNeg
 MaxSteps = 7
 MaxSnap = 2
 FreeVals = FALSE
 Dv = {"@DEV@"}
INVARIANTS UndoMatchesSaved NoPanic RevsOK DiscardAllIsBase
CHECK_DEADLOCK FALSE
