SPECIFICATION Spec
CONSTANTS Acct <- AcctC
 KindsOf <- @KINDS@
 BaseSet <- BaseNeg
 MaxSteps = @STEPS@
 MaxSnap = 2
 MaxRevs = 99
 MaxOuter = 99
 MaxInner = 99
 WithSeal = TRUE
 FreeVals = FALSE
 Dv = {"@DEV@"}
INVARIANTS UndoMatchesSaved NoPanic RevsOK DiscardAllIsBase RedoEqualsExec NoTraceOfReverted SaveSucceeds
CHECK_DEADLOCK FALSE
