SPECIFICATION Spec
CONSTANTS Acct <- AcctC
 KindsOf <- @KINDS@
 BaseSet <- BaseNeg
 MaxSteps = @STEPS@
 MaxSnap = 2
 WithSeal = TRUE
 FreeVals = FALSE
 Dv = {"@DEV@"}
INVARIANTS UndoMatchesSaved NoPanic RevsOK DiscardAllIsBase RedoEqualsExec NoTraceOfReverted
CHECK_DEADLOCK FALSE
