---- MODULE TraceConfirmStore ----
(* Rounds of concurrent SetConfirms / GetConfirms calls on the REAL chain database (stable blocks: read-modify-write through
   the files; unconfirmed blocks: in memory), released together.  sent = the confirm ids of this round's calls (all completed), all = those of earlier rounds on the block plus sent,
   returned[i] = what call i's returned block carried, reads = what concurrent GetConfirms calls saw, final = GetConfirms
   after all calls have returned.  Sequential meaning (ConfirmStore.tla, CompletedKept): final is exactly the sent set,
   every call's result holds its own confirm, and every read and result is a subset of it. *)
EXTENDS TraceBase, FiniteSets
VARIABLE rounds
TRound == /\ Ev("Round")
          /\ LET S == ToSet(E.all) IN          \* all = the confirms of earlier rounds on this block, then this round's (sent)
             /\ Cardinality(S) = Len(E.all)
             /\ ToSet(E.final) = S /\ Len(E.final) = Cardinality(S)          \* nothing lost, nothing twice, nothing foreign
             /\ \A i \in 1..Len(E.returned) : E.sent[i] \in ToSet(E.returned[i]) /\ ToSet(E.returned[i]) \subseteq S
             /\ \A i \in 1..Len(E.reads) : ToSet(E.reads[i]) \subseteq S
          /\ rounds' = rounds + 1
TraceNext == TRound
TraceSpec == l = 1 /\ rounds = 0 /\ [][TraceNext]_<<l, rounds>>
====
