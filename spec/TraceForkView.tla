---- MODULE TraceForkView ----
(* C09, code side.  Every line is one operation performed on the REAL store.ChainDatabase
   (SetBlock / GetActDatabase(h).Put / .Get / SetStableBlock / Close+reopen) together with what the real
   code returned and the complete observable post-state:
     views   for every block the real IterateUnConfirms reports, and the real stable block: what a read
             of every address through that block's view yields (non-mutating probe: trie Find, else the
             persisted account - the read path of AccountTrieDB.Get without its cache insertion)
     unconf  ids reported by IterateUnConfirms         exist  ids for which IsExistByHash is true
     anc     per unconfirmed block its ancestors as GetUnConfirmByHeight resolves them
     disk    GetAccount(a) for every address           stable id of LoadLatestBlock
   Block ids are assigned by HASH (the adapter's table hash -> id); whatever the real store reports (unconfirmed
   blocks, ancestors, dropped blocks, the stable block) is translated through that table, so a store that
   confuses two blocks which agree in height, parent, miner, time, ... and differ only in content shows up as a
   wrong id set.  AddBlock lines carry the slot of the new block and `agree`: the ids of the blocks made so far
   whose real header agrees with the new one in every hashed field except ParentHash, Height and the content
   field `kind` of this behaviour - it must be exactly the blocks of the same slot (the twins are real).
   A line is consumed only if the spec action of ForkView is enabled with the logged arguments, the
   logged result is the one the property demands, and the logged post-state equals the spec state. *)
EXTENDS ForkView, TraceBase
tvars == <<vars, l>>
TrAddrs == 1..Trace[1].naddr
TrInitStable == {}
TrKinds == {"miner", "vroot", "txroot", "logroot", "gaslimit", "gasused", "time", "deputyroot", "extra"}   \* the hashed header fields besides ParentHash / Height
RECURSIVE PathOf(_, _, _)
PathOf(P, S, b) == IF b = S \/ b \notin DOMAIN P THEN <<>> ELSE Append(PathOf(P, S, P[b]), b)
\* the logged post-state e against the spec state (P parent, S stable, C chain, V view, D persisted)
Match(e, P, S, C, V, D) ==
  /\ e.err = ""
  /\ e.stable = S
  /\ ToSet(e.unconf) = DOMAIN P /\ Len(e.unconf) = Cardinality(DOMAIN P)     \* exactly the live blocks, each once
  /\ ToSet(e.exist) = DOMAIN P \cup C                                        \* pruned blocks are gone, persisted ones stay
  /\ ToSet(e.views) = {<<b>> \o [a \in Addrs |-> V[b][a]] : b \in DOMAIN P \cup {S}}
  /\ ToSet(e.anc) = {<<b>> \o PathOf(P, S, b) : b \in DOMAIN P}
  /\ e.disk = [a \in Addrs |-> D[a]]
M == Match(E, parent', stable', chain', view', sv')

TReset == /\ Ev("reset") /\ E.naddr = Cardinality(Addrs)
          /\ parent' = <<>> /\ n' = 0 /\ stable' = 0 /\ chain' = {0} /\ wr' = {}
          /\ sv' = [a \in Addrs |-> E.sv[a]] /\ view' = (0 :> sv')
          /\ nstab' = 0 /\ nrest' = 0 /\ nreads' = 0
          /\ attr' = (0 :> 0) /\ kind' = E.kind /\ E.kind \in Kinds
          /\ M
TAdd == /\ Ev("AddBlock") /\ AddBlock(E.a[1], E.a[2]) /\ E.id = n + 1
        /\ ToSet(E.agree) \cap Views = {c \in Views : attr[c] = E.a[2]}
        /\ M
TPut == Ev("Put") /\ Put(E.a[1], E.a[2]) /\ M
\* the value read is the nearest ancestor-or-self write, else the persisted value; nothing else changes
TGet == Ev("Get") /\ Get(E.a[1], E.a[2]) /\ E.val = view[E.a[1]][E.a[2]] /\ M
\* the blocks reported as pruned are exactly the non-descendants that were not persisted
TStable == /\ Ev("SetStable") /\ SetStable(E.a[1])
           /\ ToSet(E.dropped) = Live \ (Desc(E.a[1]) \cup AncSelf(E.a[1]))
           /\ M
TRestart == Ev("Restart") /\ Restart /\ M
\* account.Manager.Save(hash(b)): the whole write set of b at once (Put for every address of S)
PutAll(b, S) == /\ b \in Live /\ S \subseteq Addrs /\ \A a \in S : <<b, a>> \notin wr
                /\ LeafOnly => IsLeaf(b)
                /\ wr' = wr \cup {<<b, a>> : a \in S}
                /\ view' = [view EXCEPT ![b] = [a \in Addrs |-> IF a \in S THEN Val(b, a) ELSE @[a]]]
                /\ UNCHANGED <<parent, n, stable, chain, sv, nstab, nrest, nreads, attr, kind>>
TSave == Ev("Save") /\ PutAll(E.a[1], ToSet(E.a[2])) /\ M
TraceNext == TReset \/ TAdd \/ TPut \/ TGet \/ TStable \/ TRestart \/ TSave
TraceSpec == /\ l = 1 /\ parent = <<>> /\ n = 0 /\ stable = 0 /\ chain = {0} /\ wr = {} /\ sv = <<>> /\ view = <<>>
             /\ nstab = 0 /\ nrest = 0 /\ nreads = 0 /\ attr = <<>> /\ kind = ""
             /\ [][TraceNext]_tvars
\* the clauses, evaluated on every prefix of every real trace (state forced by the real results)
TrViewIsNearestWrite == l > 1 => ViewIsNearestWrite
TrPersist == l > 1 => PersistEqualsStableView
====
