SPECIFICATION Spec
CONSTANTS Keys <- Keys6
 Vals = {"s", "L"}
 Path <- McPath
 Variants <- VarAll
 MaxOld = 2
 ReopenModes = {"same", "fresh", "restart"}
 Ticking = TRUE
 NH = 3
 Vias = {"delete", "empty"}
 Flushes = {FALSE, TRUE}
 Merge = TRUE
INVARIANTS TypeOK
CHECK_DEADLOCK FALSE
