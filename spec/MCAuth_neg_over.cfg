SPECIFICATION Spec
CONSTANTS Weights = {50, 100}
 MaxSigners = 2
 ExtraCfgs <- McNone
 MaxSigs = 2
 TamperFields = {"amount"}
 PayCfgs <- McPlainOnly
 PaySenders <- McNegCfgs
 PayFields = {"gasPrice"}
 GpFields = {"gasPrice"}
 MaxOver = 3
 BoxCfgs <- McPlainOnly
 Kinds = {}
 ReconfCfgs <- McNegCfgs
 NewCfgs <- McNegNew
 Slices = {"over"}
 Dev = {"Neg_PayerSignsFirstSig"}
VIEW View
PROPERTIES PayerBindsSigList
CHECK_DEADLOCK FALSE
