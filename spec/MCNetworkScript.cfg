SPECIFICATION SSpec
CONSTANTS NB = 4
 ND = 3
INVARIANT QuorumReal
CHECK_DEADLOCK FALSE
