---- MODULE TxGuardChain ----
(* C04 layer 2, design level: which blocks a validator may accept and what a miner may package so that on every
   branch every signed payload takes effect at most once and only inside its window.  Generator of the placements
   that the replayprot adapter builds as REAL blocks (real assembler) and offers to a REAL node; the verdicts of the
   real node are judged by TraceTxGuardChain.tla, not by this module.

   A transaction has a SIGNED CONTENT (what its signers signed: the id below, "t2" being the one content that exists in
   two signature encodings) and reaches a node in a CARRIER: RLP for a transaction of its own, the JSON payload of a box
   for a sub-transaction.  A carrier holds more than the signed content - a redundant "hash" member, gasUsed, unknown
   members, member order, white space - and whoever builds the box (or the block) writes those as he likes.
   Transactions: t, t2 (= t with a re-encoded signature), u, boxes b = [t], bb = [t, t], bu = [t, u] and w = [t] (another
   box - other signed wrapper - around the same t); r, a reimbursement transaction (its sender signs without gasPrice /
   gasLimit, its gas payer fills them in and signs), and r2 = the same sender-signed r priced and signed again by its gas payer;
   t3 = t with a signature appended by somebody else.
   The carrier of a transaction of its OWN has optional / defaulted / derivable members too (gasPayer: absent means the sender; to;
   toName / message / data: empty or absent; version; the redundant hash and gasUsed).  n = a transfer whose sender left gasPayer out
   and signed it so; tv / nv = t / n written again by somebody else with such a member dropped, defaulted or written redundantly
   (the signature bytes are the sender's); bv = [tv] = a box around t written that way.  Which member, and how, is the own-carrier
   form e \in OwnEncs of the block that carries the variant.  A variant is one more transaction with the payload of its original: it
   is refused or it is the original to the replay guard (an implementation whose signatures cover the raw members refuses it).
   A block carries a SEQUENCE of them (duplicates possible) in one
   carrier encoding e \in Encs ("c" = canonical: what the node's own marshaller writes).
   Offer(p, tm, L, e): a block on p with timestamp tm carrying L, its carriers written in encoding e, is built and offered.
   Design verdict Valid: every transaction (and sub-transaction) inside its window at tm, no signed payload twice inside
   the block, none already executed on the ancestor chain of p - whatever the carriers look like: the identity under which
   the replay guard files a transaction is a function of its signed content only.
   Flags = what an implementation might NOT do (negative controls: AtMostOnce is violated with them):
     DupCheck = FALSE         nothing looks for duplicates inside one block / one box
     PayloadIdentity = FALSE  identity of a transaction is the hash over its signature bytes and over what its gas payer filled
                              in (the code as written)
     CarrierIdentity = TRUE   a sub-transaction read from a box payload is filed under what the payload says it is, a transaction
                              written in another form of its own carrier under that form *)
EXTENDS Integers, Sequences, FiniteSets, TLC
CONSTANTS Times, ExpChoices, OfferMenu, MaxBlocks, MaxBoots, DupCheck, PayloadIdentity,
          Encs,             \* carrier encodings ("c" and names of manipulations the adapter implements on real payloads)
          CarrierIdentity
Life == 1800
Canon == "c"
RlpEncs == {"g"}            \* manipulations that also exist for the RLP carrier of a transaction of its own (gasUsed)
OwnEncs == {"p", "q", "o", "r", "v"}   \* forms of a transaction's own carrier: gasPayer toggled (p; q: JSON null), defaults dropped (o), to toggled (r), version defaulted (v)
JsonOwnEncs == {"q", "o"}             \* those that differ from p / from the original only in JSON carriers (box payloads, RPC)
Variants == {"tv", "nv"}
Tx == {"t", "t2", "t3", "u", "b", "bb", "bu", "w", "r", "r2", "n", "tv", "nv", "bv"}
SubsOf(x) == CASE x = "b" -> <<"t">> [] x = "bb" -> <<"t", "t">> [] x = "bu" -> <<"t", "u">> [] x = "w" -> <<"t">> [] x = "bv" -> <<"tv">> [] OTHER -> <<>>
Payload(x) == CASE x \in {"t2", "t3", "tv"} -> "t" [] x = "r2" -> "r" [] x = "nv" -> "n" [] OTHER -> x        \* what the sender signed
Ident(x) == IF PayloadIdentity THEN Payload(x) ELSE x
Range(s) == {s[i] : i \in 1..Len(s)}
Closure(x) == {x} \cup Range(SubsOf(x))
\* what takes effect, in order, when x is executed: the box itself and its sub-transactions
ExecSeq(x) == <<x>> \o SubsOf(x)
SubFlag(x) == <<FALSE>> \o [i \in 1..Len(SubsOf(x)) |-> TRUE]        \* which of them came out of a box payload
RECURSIVE ExecAll(_)
ExecAll(L) == IF L = <<>> THEN <<>> ELSE ExecSeq(Head(L)) \o ExecAll(Tail(L))
RECURSIVE FlagAll(_)
FlagAll(L) == IF L = <<>> THEN <<>> ELSE SubFlag(Head(L)) \o FlagAll(Tail(L))
NoDup(s) == \A i, j \in 1..Len(s) : i # j => s[i] # s[j]
Map(s, F(_)) == [i \in 1..Len(s) |-> F(s[i])]
HasBox(L) == \E i \in 1..Len(L) : SubsOf(L[i]) # <<>>
HasVar(L) == Range(ExecAll(L)) \cap Variants # {}
\* the carrier encodings that make a difference for the list L; a variant exists only in an own-carrier form
Carried(L, e) == IF e \in OwnEncs THEN HasVar(L) /\ (e \in JsonOwnEncs => HasBox(L))
                 ELSE ~HasVar(L) /\ (e = Canon \/ HasBox(L) \/ (L # <<>> /\ e \in RlpEncs))
\* the identities under which the replay guard files what a block (list L in carrier encoding e) executes
Filed(L, e) == LET X == ExecAll(L)  F == FlagAll(L) IN
               [k \in 1..Len(X) |-> IF CarrierIdentity /\ e # Canon /\ (F[k] \/ X[k] \in Variants) THEN <<Ident(X[k]), e, k>> ELSE <<Ident(X[k])>>]

VARIABLES exp, blocks, stable, dead,
          boots     \* the restarts so far, each as <<number of blocks, stable block>> at that moment: a restart rebuilds the node's guard from
                    \* the stable chain as it is THEN, so histories that differ in when the node restarted are different states (an edge
                    \* tour then offers every block after every restart position, not after whichever one it happened to take)
vars == <<exp, blocks, stable, dead, boots>>
N == Len(blocks)
RECURSIVE Anc(_)
Anc(b) == IF b = 0 THEN {} ELSE {b} \cup Anc(blocks[b].parent)
Usable == {b \in 1..N : blocks[b].acc /\ b \notin dead /\ stable \in Anc(b)}
Legal(x, tm) == \A y \in Closure(x) : tm <= exp[y] /\ exp[y] <= tm + Life
Done(p) == UNION {Range(Filed(blocks[X].txl, blocks[X].enc)) : X \in Anc(p)}      \* identities filed on the branch ending in p
DoneP(p) == UNION {Range(Map(ExecAll(blocks[X].txl), Payload)) : X \in Anc(p)}   \* signed payloads executed on that branch
Valid(p, tm, L, e) == /\ \A i \in 1..Len(L) : Legal(L[i], tm)
                      /\ DupCheck => NoDup(Filed(L, e))
                      /\ Range(Filed(L, e)) \cap Done(p) = {}
Init == /\ exp \in ExpChoices
        /\ blocks = <<[parent |-> 0, time |-> 0, txl |-> <<>>, enc |-> Canon, acc |-> TRUE]>>       \* genesis
        /\ stable = 1 /\ dead = {} /\ boots = <<>>
Offer(p, tm, L, e) ==
  /\ N < MaxBlocks /\ p \in Usable /\ tm >= blocks[p].time /\ Carried(L, e)
  /\ ~ \E X \in 1..N : blocks[X].parent = p /\ blocks[X].time = tm /\ blocks[X].txl = L /\ blocks[X].enc = e   \* the very same block again is ignored
  /\ blocks' = Append(blocks, [parent |-> p, time |-> tm, txl |-> L, enc |-> e, acc |-> Valid(p, tm, L, e)])
  /\ UNCHANGED <<exp, stable, dead, boots>>
Stabilise(s) == /\ s \in Usable /\ s # stable /\ stable' = s /\ UNCHANGED <<exp, blocks, dead, boots>>
Reboot == /\ Len(boots) < MaxBoots /\ boots' = Append(boots, <<N, stable>>)
          /\ dead' = dead \cup ((1..N) \ Anc(stable))
          /\ UNCHANGED <<exp, blocks, stable>>
Next == \/ \E p \in 1..MaxBlocks, tm \in Times, L \in OfferMenu, e \in Encs : Offer(p, tm, L, e)
        \/ \E s \in 1..MaxBlocks : Stabilise(s)
        \/ Reboot
Spec == Init /\ [][Next]_vars
\* ---- the property on the design ----
Count(s, x) == Cardinality({i \in 1..Len(s) : s[i] = x})
RECURSIVE Execs(_, _)
Execs(b, x) == IF b = 0 THEN 0 ELSE Count(Map(ExecAll(blocks[b].txl), Payload), x) + Execs(blocks[b].parent, x)
AtMostOnce == \A X \in 1..N : blocks[X].acc => \A x \in {"t", "u", "b", "bb", "bu", "w", "r", "n", "bv"} : Execs(X, x) <= 1
InWindow == \A X \in 2..N : blocks[X].acc => \A i \in 1..Len(blocks[X].txl) : Legal(blocks[X].txl[i], blocks[X].time)
\* what was executed only on another fork may be executed again, and no carrier makes a valid block unacceptable: such an offer is accepted
ForkFree == \A X \in 2..N : LET L == blocks[X].txl IN
              (/\ \A i \in 1..Len(L) : Legal(L[i], blocks[X].time)
               /\ NoDup(Map(ExecAll(L), Payload))
               /\ Range(Map(ExecAll(L), Payload)) \cap DoneP(blocks[X].parent) = {}) => blocks[X].acc
\* the verdict on a block does not depend on its carrier encoding (checked on the design; the real node is judged by the trace spec)
CarrierFree == \A X, Y \in 2..N : (/\ blocks[X].parent = blocks[Y].parent /\ blocks[X].time = blocks[Y].time
                                   /\ blocks[X].txl = blocks[Y].txl) => blocks[X].acc = blocks[Y].acc
====
