---- MODULE TxGuardChain ----
(* C04 layer 2, design level: which blocks a validator may accept and what a miner may package so that on every
   branch every signed payload takes effect at most once and only inside its window.  Generator of the placements
   that the replayprot adapter builds as REAL blocks (real assembler) and offers to a REAL node; the verdicts of the
   real node are judged by TraceTxGuard.tla (second half), not by this module.

   Transactions: t, t2 (= t with a re-encoded signature), u, boxes b = [t], bb = [t, t], bu = [t, u].  A block carries a
   SEQUENCE of them (duplicates possible).  Offer(p, tm, L): a block on p with timestamp tm carrying L is built and offered.
   Design verdict Valid: every transaction (and sub-transaction) inside its window at tm, no signed payload twice inside
   the block, none already executed on the ancestor chain of p.
   Flags = what the code as written does NOT check (negative control: AtMostOnce is violated with them):
     DupCheck = FALSE         nothing looks for duplicates inside one block / one box
     PayloadIdentity = FALSE  identity of a transaction is the hash over its signature bytes *)
EXTENDS Integers, Sequences, FiniteSets, TLC
CONSTANTS Times, ExpChoices, OfferMenu, MaxBlocks, MaxBoots, DupCheck, PayloadIdentity
Life == 1800
Tx == {"t", "t2", "u", "b", "bb", "bu"}
SubsOf(x) == CASE x = "b" -> <<"t">> [] x = "bb" -> <<"t", "t">> [] x = "bu" -> <<"t", "u">> [] OTHER -> <<>>
Payload(x) == IF x = "t2" THEN "t" ELSE x
Ident(x) == IF PayloadIdentity THEN Payload(x) ELSE x
Range(s) == {s[i] : i \in 1..Len(s)}
Closure(x) == {x} \cup Range(SubsOf(x))
\* what takes effect, in order, when x is executed: the box itself and its sub-transactions
ExecSeq(x) == <<x>> \o SubsOf(x)
RECURSIVE ExecAll(_)
ExecAll(L) == IF L = <<>> THEN <<>> ELSE ExecSeq(Head(L)) \o ExecAll(Tail(L))
NoDup(s) == \A i, j \in 1..Len(s) : i # j => s[i] # s[j]
Map(s, F(_)) == [i \in 1..Len(s) |-> F(s[i])]

VARIABLES exp, blocks, stable, dead,
          boots     \* number of restarts so far: a restart rebuilds the node's guard, so what follows it is a different history
vars == <<exp, blocks, stable, dead, boots>>
N == Len(blocks)
RECURSIVE Anc(_)
Anc(b) == IF b = 0 THEN {} ELSE {b} \cup Anc(blocks[b].parent)
Usable == {b \in 1..N : blocks[b].acc /\ b \notin dead /\ stable \in Anc(b)}
Legal(x, tm) == \A y \in Closure(x) : tm <= exp[y] /\ exp[y] <= tm + Life
Done(p, F(_)) == UNION {Range(Map(ExecAll(blocks[X].txl), F)) : X \in Anc(p)}     \* identities executed on the branch ending in p
Valid(p, tm, L) == /\ \A i \in 1..Len(L) : Legal(L[i], tm)
                   /\ DupCheck => NoDup(Map(ExecAll(L), Ident))
                   /\ Range(Map(ExecAll(L), Ident)) \cap Done(p, Ident) = {}
Init == /\ exp \in ExpChoices
        /\ blocks = <<[parent |-> 0, time |-> 0, txl |-> <<>>, acc |-> TRUE]>>       \* genesis
        /\ stable = 1 /\ dead = {} /\ boots = 0
Offer(p, tm, L) == /\ N < MaxBlocks /\ p \in Usable /\ tm >= blocks[p].time
                   /\ ~ \E X \in 1..N : blocks[X].parent = p /\ blocks[X].time = tm /\ blocks[X].txl = L   \* the very same block again is ignored
                   /\ blocks' = Append(blocks, [parent |-> p, time |-> tm, txl |-> L, acc |-> Valid(p, tm, L)])
                   /\ UNCHANGED <<exp, stable, dead, boots>>
Stabilise(s) == /\ s \in Usable /\ s # stable /\ stable' = s /\ UNCHANGED <<exp, blocks, dead, boots>>
Reboot == /\ boots < MaxBoots /\ boots' = boots + 1
          /\ dead' = dead \cup ((1..N) \ Anc(stable))
          /\ UNCHANGED <<exp, blocks, stable>>
Next == \/ \E p \in 1..MaxBlocks, tm \in Times, L \in OfferMenu : Offer(p, tm, L)
        \/ \E s \in 1..MaxBlocks : Stabilise(s)
        \/ Reboot
Spec == Init /\ [][Next]_vars
\* ---- the property on the design ----
Count(s, x) == Cardinality({i \in 1..Len(s) : s[i] = x})
RECURSIVE Execs(_, _)
Execs(b, x) == IF b = 0 THEN 0 ELSE Count(Map(ExecAll(blocks[b].txl), Payload), x) + Execs(blocks[b].parent, x)
AtMostOnce == \A X \in 1..N : blocks[X].acc => \A x \in {"t", "u", "b", "bb", "bu"} : Execs(X, x) <= 1
InWindow == \A X \in 2..N : blocks[X].acc => \A i \in 1..Len(blocks[X].txl) : Legal(blocks[X].txl[i], blocks[X].time)
\* what was executed only on another fork may be executed again: such an offer is accepted
ForkFree == \A X \in 2..N : LET L == blocks[X].txl IN
              (/\ \A i \in 1..Len(L) : Legal(L[i], blocks[X].time)
               /\ NoDup(Map(ExecAll(L), Payload))
               /\ Range(Map(ExecAll(L), Payload)) \cap Done(blocks[X].parent, Payload) = {}) => blocks[X].acc
====
