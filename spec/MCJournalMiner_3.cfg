SPECIFICATION Spec
CONSTANTS GasLimits <- McLimits
 Gas <- McGas
 MinGas = 21000
 MaxCands = 3
 Offered <- Offered3
 Dv <- NoDev
INVARIANTS NoTraceOfDiscarded Classified
CHECK_DEADLOCK FALSE
