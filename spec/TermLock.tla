---- MODULE TermLock ----
(* C19: the deputy manager (chain/deputynode/manager.go) is read by every thread of the node (miner, block and confirm
   verification, RPC) and written by the chain thread when a term snapshot block becomes stable (SaveSnapshot, called under
   chainLock: a chain thread that hangs there hangs the whole engine).  Its lock is a Go sync.RWMutex, which is
   writer-preferring: once a writer waits, NEW readers queue behind it.  The design: readers take the read lock once per
   query (Nested = FALSE, the code as it is); with Nested = TRUE a query takes it a second time while holding it
   (negative control: TLC finds the deadlock reader - waiting writer - same reader).
   Content: a query returns one of the versions of the term that were saved, never a mixture (versions are opaque ids). *)
EXTENDS Naturals, FiniteSets, TLC
CONSTANTS Readers, Versions, Nested, MaxSaves
VARIABLES readers,   \* multiset of read-lock holds: reader -> count
          writer,    \* TRUE while the writer holds the lock
          wwait,     \* TRUE while the writer waits for the lock
          term,      \* the stored version of the term (0 = genesis only)
          rpc,       \* reader program counter: "idle" | "in1" | "in2" | "out1"
          got,       \* what the reader's current query read
          saves
vars == <<readers, writer, wwait, term, rpc, got, saves>>
Held == {r \in Readers : readers[r] > 0}
Init == /\ readers = [r \in Readers |-> 0] /\ writer = FALSE /\ wwait = FALSE /\ term = 0
        /\ rpc = [r \in Readers |-> "idle"] /\ got = [r \in Readers |-> 0] /\ saves = 0
\* RLock succeeds only when no writer holds or WAITS for the lock
CanRLock == ~writer /\ ~wwait
RLock1(r) == /\ rpc[r] = "idle" /\ CanRLock
             /\ readers' = [readers EXCEPT ![r] = @ + 1] /\ rpc' = [rpc EXCEPT ![r] = "in1"]
             /\ got' = [got EXCEPT ![r] = term] /\ UNCHANGED <<writer, wwait, term, saves>>
RLock2(r) == /\ Nested /\ rpc[r] = "in1" /\ CanRLock
             /\ readers' = [readers EXCEPT ![r] = @ + 1] /\ rpc' = [rpc EXCEPT ![r] = "in2"]
             /\ UNCHANGED <<writer, wwait, term, got, saves>>
\* a nested reader goes idle -> in1 -> in2 (second RLock) -> out1 (first RUnlock) -> idle
RUnlock(r) == /\ \/ (rpc[r] = "in2" /\ rpc' = [rpc EXCEPT ![r] = "out1"])
                 \/ (rpc[r] = "in1" /\ ~Nested /\ rpc' = [rpc EXCEPT ![r] = "idle"])
                 \/ (rpc[r] = "out1" /\ rpc' = [rpc EXCEPT ![r] = "idle"])
              /\ readers' = [readers EXCEPT ![r] = @ - 1]
              /\ UNCHANGED <<writer, wwait, term, got, saves>>
WantWrite == /\ ~writer /\ ~wwait /\ saves < MaxSaves /\ wwait' = TRUE /\ UNCHANGED <<readers, writer, term, rpc, got, saves>>
WLock == /\ wwait /\ Held = {} /\ writer' = TRUE /\ wwait' = FALSE /\ UNCHANGED <<readers, term, rpc, got, saves>>
Save(v) == /\ writer /\ term' = v /\ writer' = FALSE /\ saves' = saves + 1 /\ UNCHANGED <<readers, wwait, rpc, got>>
Next == \/ \E r \in Readers : RLock1(r) \/ RLock2(r) \/ RUnlock(r)
        \/ WantWrite \/ WLock \/ \E v \in Versions : Save(v)
Spec == Init /\ [][Next]_vars
\* ---- properties ----
ReadsASavedVersion == \A r \in Readers : got[r] \in Versions \cup {0}
Exclusive == writer => Held = {}
\* no state in which somebody waits for ever: every state with a waiting writer or a reader inside can move (TLC: deadlock check;
\* stated as an invariant so that it is reported by name)
NoHang == (wwait \/ Held # {}) => ENABLED Next
====
