SPECIFICATION Spec
CONSTANTS MaxN = 7
  MaxT = 3
  TPS = 2
  Rounds = 3
INVARIANTS ExactlyOne AgreesWithSpec Rotation DistanceRoundTrip WindowIsMine WindowOpen WindowEarliest StampVerifies WakeInWindow
CHECK_DEADLOCK FALSE
